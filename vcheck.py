#!/venv/bin/python
"""Entry point:  /venv/bin/python -B vcheck.py C07 [--tier quick|thorough]
                 /venv/bin/python -B vcheck.py C07 --replay FILE

Supervisor: splits the tier's workload into shards, runs each shard in its own
subprocess (monitors armed inside), merges what the monitors observed, runs the
offline whole-history checkers, classifies against known_findings.txt, writes
evidence/<id>.json and exits 0 (held) / 1 (VIOLATION) / 2 (INCONCLUSIVE).
"""
import argparse
import importlib
import json
import os
import sys

HERE = os.path.dirname(os.path.abspath(__file__))
sys.path.insert(0, HERE)

from vlib import bootstrap, harness, verdict  # noqa: E402


def main():
    ap = argparse.ArgumentParser()
    ap.add_argument('prop')
    ap.add_argument('--tier', default=os.environ.get('VERIF_TIER', 'quick'),
                    choices=['quick', 'thorough'])
    ap.add_argument('--shard', default=None)
    ap.add_argument('--out', default=None)
    ap.add_argument('--mem-gb', type=float, default=3)
    ap.add_argument('--replay', default=None)
    ap.add_argument('--jobs', type=int,
                    default=int(os.environ.get('VERIF_JOBS', '16')))
    args = ap.parse_args()
    prop = args.prop.upper()
    try:
        seed = int(os.environ.get('VERIF_SEED', '0'))
    except ValueError:
        seed = 0

    if args.shard or args.replay:
        sys.path.insert(0, bootstrap.DEPS)
    mod = importlib.import_module(f'checks.{prop.lower()}')

    if args.shard:
        i, n = (int(x) for x in args.shard.split('/'))
        harness.run_shard(mod, args.tier, seed, i, n, args.out, args.mem_gb)
        return 0

    if args.replay:
        bootstrap.ensure_deps()
        bootstrap.import_subject()
        with open(args.replay) as fp:
            rec = json.load(fp)
        fn = getattr(mod, 'replay', None)
        if fn is None:
            from vlib import replay as generic
            return generic.replay(rec)
        return fn(rec) or 0

    if not bootstrap.ensure_deps(quiet=False):
        print(f'INCONCLUSIVE property={prop} reason=could not install monitor '
              f'dependencies from {bootstrap.WHEELS}')
        return 2
    outdir = os.path.join(HERE, 'out', prop)
    mem = getattr(mod, 'MEM_GB', 3)
    summaries, wall = harness.run_all_shards(
        prop, mod, args.tier, seed, outdir, jobs=args.jobs, mem_gb=mem)
    merged = harness.merge(summaries)
    off = getattr(mod, 'offline', None)
    if off is not None:
        octx = harness.Ctx(prop, args.tier, seed, -1, len(summaries))
        try:
            off(merged, octx)
        except Exception as e:  # the reference/offline checker itself failed
            import traceback
            merged['inconclusive'].append(
                'offline checker raised: ' + traceback.format_exc()[-800:])
        s = octx.summary()
        try:
            with open(os.path.join(outdir, 'shard_offline.json'), 'w') as fp:
                json.dump(dict(s, status='ok'), fp)
        except Exception:
            pass
        merged['evaluations'] += s['evaluations']
        merged['nt'].update(s['nt'])
        for k, v in s['counters'].items():
            merged['counters'][k] = merged['counters'].get(k, 0) + v
        for k, v in s['cand_counts'].items():
            merged['cand_counts'][k] = merged['cand_counts'].get(k, 0) + v
        merged['candidates'].extend(s['candidates'])
        merged['samples'].extend(s['samples'])
        merged['inconclusive'].extend(s['inconclusive'])
        merged['notes'].extend(s['notes'])
        for k, v in s['blocks'].items():
            merged['blocks'][k] = merged['blocks'].get(k, 0) + v
    return verdict.decide(prop, mod, merged, args.tier, seed, wall)


if __name__ == '__main__':
    sys.exit(main())
