"""Seeded generators of acyclic reference workbooks (shared by C04, C05, C12,
C13).  Cells are created in an order; a formula only refers to cells created
before it, so the dependency graph is acyclic by construction."""
from . import ref

FALSE4 = (False,) * 4


ABS_RNG = None      # set to a random.Random to sprinkle $ over references


def R(key, home=None, qualify=False):
    s = key[0] if (qualify or (home is not None and key[0] != home)) else None
    if ABS_RNG is not None:
        return ('ref', s, key[1], key[2], ABS_RNG.random() < 0.2,
                ABS_RNG.random() < 0.2)
    return ('ref', s, key[1], key[2], False, False)


def lit(v):
    if isinstance(v, bool):
        return ('lit', v, 'TRUE' if v else 'FALSE')
    if isinstance(v, str):
        return ('lit', v, '"' + v.replace('"', '""') + '"')
    if v < 0:
        return ('neg', lit(-v))
    return ('lit', v, repr(v) if not float(v).is_integer() else str(int(v)))


class AcyclicModel:
    def __init__(self):
        self.cells = {}        # key -> constant | ('f', ast)
        self.order = []        # creation order
        self.inputs = []       # constant cells
        self.formulas = []
        self.names = {}
        self.depth = {}        # dependency depth of each cell
        self.deps = {}         # key -> set of direct precedent keys

    def workbook(self):
        return ref.Workbook(dict(self.cells), dict(self.names))

    def closure(self, keys):
        seen = set()
        todo = list(keys)
        while todo:
            k = todo.pop()
            if k in seen:
                continue
            seen.add(k)
            todo.extend(self.deps.get(k, ()))
        return seen


def gen_model(rng, n_inputs=4, n_formulas=6, sheets=('Sheet1',),
              with_ranges=True, with_if=True, values=None, max_depth=None):
    """Inputs live in column A.. of each sheet (rows 1..), formulas in column
    D ; ranges are rectangles over the input block (column A:B) or column
    ranges over formula cells created earlier."""
    global ABS_RNG
    ABS_RNG = rng
    m = AcyclicModel()
    values = values or [0, 1, 2, 3, 4, 5, 0.5, 1.5, -1, -2, 10, 7]
    rows = {s: 0 for s in sheets}
    # inputs: a 2-column block per sheet
    n_inputs += n_inputs % 2          # complete rows: no blank inside a block
    for i in range(n_inputs):
        s = sheets[(i // 2) % len(sheets)]
        if i % 2 == 0:
            rows[s] += 1
        key = (s, 1 + (i % 2), rows[s])
        m.cells[key] = rng.choice(values)
        m.order.append(key)
        m.inputs.append(key)
        m.depth[key] = 0
        m.deps[key] = set()
    frow = {s: 0 for s in sheets}
    for j in range(n_formulas):
        s = rng.choice(list(sheets))
        frow[s] += 1
        key = (s, 4, frow[s])
        prior = list(m.order)
        if max_depth is not None:
            prior = [k for k in prior if m.depth[k] < max_depth] or prior
        deps = set()

        def operand():
            r = rng.random()
            if r < 0.7 and prior:
                k = rng.choice(prior[-8:] if rng.random() < 0.6 else prior)
                deps.add(k)
                if rng.random() < 0.1:
                    # a sign directly on the reference (=B1*-A1, =-A1+2)
                    return ('neg', R(k, s))
                return R(k, s)
            return lit(rng.choice([1, 2, 3, 0.5, 10]))
        shape = rng.random()
        over_formulas = [x for x in sheets
                         if frow[x] - (1 if x == s else 0) >= 1]
        if with_ranges and shape < 0.08 and over_formulas:
            # a column range over formula cells created earlier (column D)
            rs = rng.choice(over_formulas)
            maxr = frow[rs] - (1 if rs == s else 0)
            r1 = rng.randint(1, maxr)
            r2 = rng.randint(r1, maxr)
            for rr in range(r1, r2 + 1):
                deps.add((rs, 4, rr))
            fl = FALSE4 if rng.random() < 0.6 else tuple(
                rng.random() < 0.5 for _ in range(4))
            rg = ('rng', rs if rs != s else None, 4, r1, 4, r2, fl)
            f = rng.choice(['SUM', 'SUM', 'MAX', 'MIN', 'COUNT'])
            ast = ('call', f, [rg])
            if f in ('MAX', 'MIN'):
                ast = ('call', f, [rg, operand()])
            if rng.random() < 0.5:
                ast = ('bin', rng.choice(['+', '-', '*']), ast, operand())
        elif with_ranges and shape < 0.25:
            # a rectangle over the input block of some sheet
            rs = rng.choice([x for x in sheets if rows[x] > 0])
            maxr = max(1, rows[rs])
            r1 = rng.randint(1, maxr)
            r2 = rng.randint(r1, maxr)
            c1 = rng.randint(1, 2)
            c2 = rng.randint(c1, 2)
            for rr in range(r1, r2 + 1):
                for cc in range(c1, c2 + 1):
                    deps.add((rs, cc, rr))
            fl = FALSE4 if rng.random() < 0.6 else tuple(
                rng.random() < 0.5 for _ in range(4))
            rg = ('rng', rs if rs != s else None, c1, r1, c2, r2, fl)
            f = rng.choice(['SUM', 'SUM', 'MAX', 'MIN', 'COUNT'])
            ast = ('call', f, [rg])
            if f in ('MAX', 'MIN'):
                # MAX/MIN over no number is not stated: add a scalar
                ast = ('call', f, [rg, operand()])
            if rng.random() < 0.5:
                ast = ('bin', rng.choice(['+', '-', '*']), ast, operand())
        elif with_if and shape < 0.4:
            cond = ('bin', rng.choice(['>', '<', '>=', '=']), operand(),
                    operand())
            ast = ('call', 'IF', [cond, operand(), operand()])
        elif shape < 0.5:
            ast = ('call', rng.choice(['SUM', 'MAX', 'MIN']),
                   [operand() for _ in range(rng.randint(2, 4))])
        else:
            ast = operand()
            for _ in range(rng.randint(1, 3)):
                op = rng.choice(['+', '+', '-', '*'])
                ast = ('bin', op, ast, operand())
        # lazily unselected IF branches still count as dependencies for the
        # closure (a superset is what extract must contain at least ... the
        # statement says "everything they depend on"); for depth they count
        m.cells[key] = ('f', ast)
        m.order.append(key)
        m.formulas.append(key)
        real = {d for d in deps}
        m.deps[key] = real
        m.depth[key] = 1 + max([m.depth.get(d, 0) for d in real] or [0])
    return m


def blank_deps_fix(m):
    """range members that hold nothing are still precedents; make sure they
    have a depth entry"""
    for k, ds in m.deps.items():
        for d in ds:
            m.depth.setdefault(d, 0)
            m.deps.setdefault(d, set())
    return m
