"""Driving the subject through its public API (the boundary the monitors
observe)."""
from .monitors import norm
from .harness import MonitorAbort

PROBE_COL = 'ZZ'


def outcome_of(fn):
    """-> ('value', norm) | ('raised', 'Type: msg')"""
    try:
        r = fn()
    except MonitorAbort:
        raise
    except RecursionError as e:
        return ('raised', 'RecursionError: ' + str(e)[:60])
    except MemoryError:
        return ('raised', 'MemoryError')
    except BaseException as e:  # noqa
        msg = str(e)
        return ('raised', f'{type(e).__name__}: {msg[:300]}')
    return ('value', norm(r))


def compile_dict(cells, default_sheet='Sheet1'):
    from xlcalculator import ModelCompiler
    return ModelCompiler().read_and_parse_dict(
        dict(cells), default_sheet=default_sheet)


def eval_batch(formulas, inputs=None, sheet='Sheet1', post_set=None,
               evaluator_hook=None):
    """Evaluate many independent probe formulas in ONE compiled model (fast
    path); if compiling the batch raises, fall back to one model per formula so
    that one unparsable formula cannot hide the others.
    -> list of outcomes aligned with formulas."""
    from xlcalculator import Evaluator
    inputs = dict(inputs or {})
    cells = dict(inputs)
    addrs = []
    for i, f in enumerate(formulas):
        a = f'{sheet}!{PROBE_COL}{i + 1}'
        cells[a] = f if f.startswith('=') else '=' + f
        addrs.append(a)
    try:
        model = compile_dict(cells, default_sheet=sheet)
    except MonitorAbort:
        raise
    except BaseException:
        out = []
        for f in formulas:
            out.append(eval_one(f, inputs, sheet, post_set, evaluator_hook))
        return out
    ev = Evaluator(model)
    if evaluator_hook:
        evaluator_hook(ev)
    if post_set:
        for a, v in post_set.items():
            ev.set_cell_value(a, v)
    return [outcome_of(lambda a=a: ev.evaluate(a)) for a in addrs]


def eval_series(formulas, inputs_list, sheet='Sheet1'):
    """ONE compiled model and ONE Evaluator; the probe formulas are evaluated
    under inputs_list[0], then the inputs are re-assigned through
    Evaluator.set_cell_value to inputs_list[1], ... and the same probes are
    evaluated again (what a user doing what-if analysis does).
    -> list (per assignment) of lists of outcomes, or None when the batch does
    not compile (the caller has the one-model-per-assignment path for that)."""
    from xlcalculator import Evaluator
    cells = dict(inputs_list[0])
    addrs = []
    for i, f in enumerate(formulas):
        a = f'{sheet}!{PROBE_COL}{i + 1}'
        cells[a] = f if f.startswith('=') else '=' + f
        addrs.append(a)
    # a formula that reads every input and then FAILS (unknown function): it is
    # evaluated, and its failure caught, before each re-assignment - what a
    # failed evaluation has read must not survive it
    keys = [k for k in inputs_list[0] if '!' not in k or
            k.startswith(sheet + '!')]
    failing = None
    if keys and len(keys) <= 40:
        failing = f'{sheet}!ZY1'
        cells[failing] = '=' + '+'.join(
            k.split('!')[-1] for k in keys) + '+NOSUCHFUNCTION(1)'
    try:
        ev = Evaluator(compile_dict(cells, default_sheet=sheet))
    except MonitorAbort:
        raise
    except BaseException:  # noqa
        return None
    out = []
    for n, inputs in enumerate(inputs_list):
        if n:
            if failing:
                outcome_of(lambda: ev.evaluate(failing))
            for a, v in inputs.items():
                ev.set_cell_value(a if '!' in a else f'{sheet}!{a}', v)
        out.append([outcome_of(lambda a=a: ev.evaluate(a)) for a in addrs])
    return out


def eval_one(formula, inputs=None, sheet='Sheet1', post_set=None,
             evaluator_hook=None):
    from xlcalculator import Evaluator
    cells = dict(inputs or {})
    a = f'{sheet}!{PROBE_COL}1'
    cells[a] = formula if formula.startswith('=') else '=' + formula

    def go():
        model = compile_dict(cells, default_sheet=sheet)
        ev = Evaluator(model)
        if evaluator_hook:
            evaluator_hook(ev)
        if post_set:
            for k, v in post_set.items():
                ev.set_cell_value(k, v)
        return ev.evaluate(a)
    return outcome_of(go)


def lit(v):
    """Render a Python scalar as the formula literal Excel would store."""
    if isinstance(v, bool):
        return 'TRUE' if v else 'FALSE'
    if isinstance(v, str):
        return '"' + v.replace('"', '""') + '"'
    if isinstance(v, int):
        return str(v) if v >= 0 else f'-{-v}'
    if isinstance(v, float):
        r = repr(v)
        if 'e' in r or 'E' in r:
            from decimal import Decimal
            r = format(Decimal(r), 'f')
        if r.endswith('.0'):
            r = r[:-2]
        return r
    raise TypeError(v)


def outcome_of_raw(fn):
    """like outcome_of, but the value is handed back as it is"""
    try:
        return ('value', fn())
    except MonitorAbort:
        raise
    except RecursionError as e:
        return ('raised', 'RecursionError: ' + str(e)[:60])
    except BaseException as e:  # noqa
        return ('raised', f'{type(e).__name__}: {str(e)[:300]}')
