"""Anchor-coverage gate: which functions of <repo>/xlcalculator did the workload
actually execute (sys.monitoring LINE events, DISABLE after the first hit of
each line, so the cost is negligible)."""
import os
import sys


class Coverage:
    TOOL = 3

    def __init__(self, root):
        self.prefix = os.path.join(root, 'xlcalculator') + os.sep
        self.root = root
        self.hits = {}      # (relfile, qualname) -> set(lines)
        self.on = False

    def start(self):
        mon = getattr(sys, 'monitoring', None)
        if mon is None:
            return
        try:
            mon.use_tool_id(self.TOOL, 'verif-cover')
        except ValueError:
            return
        ev = mon.events

        def on_line(code, line):
            fn = code.co_filename
            if fn.startswith(self.prefix):
                key = (fn[len(self.root) + 1:], code.co_qualname)
                s = self.hits.get(key)
                if s is None:
                    s = self.hits[key] = set()
                s.add(line)
            return mon.DISABLE

        mon.register_callback(self.TOOL, ev.LINE, on_line)
        mon.set_events(self.TOOL, ev.LINE)
        self.on = True

    def stop(self):
        if not self.on:
            return
        mon = sys.monitoring
        mon.set_events(self.TOOL, 0)
        mon.register_callback(self.TOOL, mon.events.LINE, None)
        mon.free_tool_id(self.TOOL)
        self.on = False

    def result(self):
        out = {}
        for (f, q), lines in self.hits.items():
            if q == '<module>':
                continue
            out.setdefault(f, {})[q] = len(lines)
        return out
