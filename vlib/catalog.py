"""One table: every registered function -> a valid example call (python
natives; a list of lists is a range/array argument).  Checked against the live
registry at start, so that a newly registered function cannot silently go
unmonitored (the checks report registered-but-uncatalogued names)."""

R3 = [[1.0], [2.0], [3.0]]
T23 = [[1.0, 'a'], [2.0, 'b'], [3.0, 'c']]

EX = {
    'ABS': (-3,), 'ACOS': (0.5,), 'ACOSH': (2,), 'ASIN': (0.5,), 'ASINH': (1,),
    'ATAN': (1,), 'ATAN2': (1, 2), 'CEILING': (2.5, 1), 'COS': (1,),
    'COSH': (1,), 'DEGREES': (1,), 'EVEN': (3,), 'EXP': (1,), 'FACT': (5,),
    'FACTDOUBLE': (6,), 'FLOOR': (2.5, 1), 'INT': (2.5,), 'LN': (2,),
    'LOG': (8, 2), 'LOG10': (100,), 'MOD': (7, 3), 'POWER': (2, 3),
    'RADIANS': (180,), 'ROUND': (2.567, 2), 'ROUNDUP': (2.567, 2),
    'ROUNDDOWN': (2.567, 2), 'SIGN': (-2,), 'SIN': (1,), 'SQRT': (4,),
    'SQRTPI': (2,), 'TAN': (1,), 'TRUNC': (2.567, 2),
    'RANDBETWEEN': (1, 1),
    'DATE': (2020, 2, 3), 'DATEDIF': (43831, 44000, 'D'), 'DAY': (44000,),
    'DAYS': (44000, 43831), 'EDATE': (44000, 2), 'EOMONTH': (44000, 2),
    'ISOWEEKNUM': (44000,), 'MONTH': (44000,), 'WEEKDAY': (44000, 2),
    'YEAR': (44000,), 'YEARFRAC': (43831, 44000, 2),
    'EXACT': ('a', 'a'), 'FIND': ('b', 'abc', 1), 'LEFT': ('abc', 2),
    'LEN': ('abc',), 'LOWER': ('ABC',), 'MID': ('abcdef', 2, 3),
    'REPLACE': ('abcdef', 2, 3, 'XY'), 'RIGHT': ('abc', 2), 'TRIM': (' a ',),
    'UPPER': ('abc',),
    'ISEVEN': (4,), 'ISODD': (3,), 'CHOOSE': (2, 'a', 'b', 'c'),
    'PMT': (0.05, 10, 1000), 'PV': (0.05, 10, -100), 'SLN': (1000, 100, 9),
    'VDB': (2400, 300, 10, 0, 1), 'NPV': (0.1, 100, 200),
    'OP_ADD': (1, 2), 'OP_SUB': (1, 2), 'OP_MUL': (1, 2), 'OP_DIV': (1, 2),
    'OP_EQ': (1, 2), 'OP_NE': (1, 2), 'OP_GT': (1, 2), 'OP_LT': (1, 2),
    'OP_GE': (1, 2), 'OP_LE': (1, 2), 'OP_NEG': (1,), 'OP_PERCENT': (1,),
    'DEC2BIN': (5, 8), 'DEC2OCT': (5, 8), 'DEC2HEX': (5, 8),
    'BIN2DEC': ('101',), 'BIN2OCT': ('101', 8), 'BIN2HEX': ('101', 8),
    'OCT2DEC': ('17',), 'OCT2BIN': ('17', 8), 'OCT2HEX': ('17', 8),
    'HEX2DEC': ('1F',), 'HEX2BIN': ('1F', 8), 'HEX2OCT': ('1F', 8),
    'SUM': (1, 2, 3), 'AVERAGE': (1, 2, 3), 'MIN': (1, 2, 3),
    'MAX': (1, 2, 3), 'CONCAT': ('a', 'b', 'c'),
    'CONCATENATE': ('a', 'b', 'c'), 'COUNT': (1, 2, 3), 'COUNTA': (1, 2, 3),
    'SUMPRODUCT': (R3, R3),
    'COUNTIF': (R3, '>1'), 'COUNTIFS': (R3, '>1'),
    'SUMIF': (R3, '>1'), 'SUMIFS': (R3, R3, '>1'),
    'MATCH': (2, R3, 0), 'VLOOKUP': (2, T23, 2, False),
    'IRR': ([[-100.0], [60.0], [60.0]],),
    'XNPV': (0.1, [[-100.0], [60.0], [60.0]],
             [[43831.0], [44000.0], [44200.0]]),
    'XIRR': ([[-100.0], [60.0], [60.0]], [[43831.0], [44000.0], [44200.0]]),
    'IF': (True, 1, 2), 'AND': (True, True), 'OR': (False, True),
    'NOT': (True,), 'TRUE': (), 'FALSE': (), 'NA': (), 'PI': (), 'RAND': (),
    'NOW': (), 'TODAY': (),
    'ISBLANK': (1,), 'ISERR': (1,), 'ISERROR': (1,), 'ISNA': (1,),
    'ISNUMBER': (1,), 'ISTEXT': (1,),
}

# functions whose scalar arguments are NOT expected to hand an error through
# (statement C07: IS*/COUNT family; lazily unselected arguments; CHOOSE
# alternatives)
ERROR_INSPECTING = {'ISERR', 'ISERROR', 'ISNA', 'ISBLANK', 'ISNUMBER',
                    'ISTEXT', 'COUNT', 'COUNTA', 'COUNTIF', 'COUNTIFS'}
LAZY_POSITIONS = {'IF': {1, 2}, 'CHOOSE': {1, 2, 3, 4, 5, 6, 7}}
VOLATILE = {'RAND', 'RANDBETWEEN', 'NOW', 'TODAY'}
AGGREGATING = {'SUM', 'AVERAGE', 'MIN', 'MAX', 'CONCAT', 'CONCATENATE',
               'SUMPRODUCT', 'NPV'}
SPIES = {'SPY', 'BOOM'}


def uncatalogued(registry):
    return sorted(n for n in registry if n not in EX and n not in SPIES)
