"""Generic single-case replayer: re-executes the witness of a replay file with
the monitors' view (outcome at the boundary) and prints observed vs recorded."""
import ast
import json


def _lit(x):
    if isinstance(x, str):
        try:
            return ast.literal_eval(x)
        except Exception:  # noqa
            return x
    return x


def replay(rec):
    from . import monitors, subject
    w = rec.get('witness', {})
    print('property :', rec.get('property'))
    print('monitor  :', rec.get('monitor'))
    print('recorded :', rec.get('what'))
    done = False
    formula = w.get('formula')
    series = w.get('assignments_in_order')
    if isinstance(formula, str) and formula.startswith('=') and series:
        try:
            outs = subject.eval_series([formula], series)
        except Exception as e:  # noqa
            outs = [[('raised-in-replay', repr(e))]]
        for step, (asg, o) in enumerate(zip(series, outs or [])):
            print(f'replayed : step {step} inputs {asg} -> {o[0]}')
        done = True
    elif isinstance(formula, str) and formula.startswith('='):
        cells = w.get('cells') or w.get('inputs') or {}
        inputs = {}
        if isinstance(cells, dict):
            for k, v in cells.items():
                if v is not None and isinstance(k, str) and k[:1].isalpha():
                    inputs[k] = v
        if 'A1' in w and 'A1' not in inputs:
            v = _lit(w['A1'])
            if v is not None:
                inputs['A1'] = v
        try:
            got = subject.eval_one(formula, inputs)
        except Exception as e:  # noqa
            got = ('raised-in-replay', repr(e))
        print('replayed :', formula, 'with', inputs, '->', got)
        done = True
    if w.get('function') and w.get('args') is not None:
        from xlcalculator.xlfunctions import xl
        f = xl.FUNCTIONS.get(w['function'])
        args = [_lit(a) for a in w['args']]
        if f is not None:
            print('replayed :', w['function'], args, '->',
                  monitors.call_outcome(f, *args))
            done = True
    if not done:
        print('(no generic replayer for this witness; it is self-contained:)')
        print(json.dumps(w, indent=1, ensure_ascii=False)[:4000])
    for k in ('observed', 'reference', 'expected', 'canonical'):
        if k in w:
            print(f'{k:9}:', w[k])
    return 0
