"""Building the subject's Model from a reference Workbook, through the public
construction paths."""
import os

from . import ref, xlsxw


def addr(key):
    return f'{key[0]}!{ref.col_letters(key[1])}{key[2]}'


def is_formula(c):
    return isinstance(c, tuple) and len(c) == 2 and c[0] == 'f'


def dict_of(wb):
    """{'Sheet!A1': constant | '=formula'} (blank cells are simply absent)"""
    out = {}
    for key, c in wb.cells.items():
        if c is None:
            continue
        if is_formula(c):
            out[addr(key)] = '=' + ref.render(c[1])
        else:
            if isinstance(c, str) and (c == '' or c.startswith('=')):
                raise ValueError('not storable through the dict path: %r' % c)
            out[addr(key)] = c
    return out


def model_from_dict(wb, default_sheet=None):
    from xlcalculator import ModelCompiler
    d = dict_of(wb)
    if default_sheet is None:
        default_sheet = next(iter(wb.cells))[0] if wb.cells else 'Sheet1'
    return ModelCompiler().read_and_parse_dict(d, default_sheet=default_sheet)


def name_target(ast, quote=True):
    """text of a defined name's target as the workbook stores it"""
    # (absolute, as Excel writes them, unless the flags say otherwise: a name
    # may also be bound through a mixed or relative reference)
    if ast[0] == 'ref':
        a = ('ref', ast[1], ast[2], ast[3],
             ast[4] if len(ast) > 4 else True, ast[5] if len(ast) > 5 else True)
    else:
        a = ('rng', ast[1], ast[2], ast[3], ast[4], ast[5],
             ast[6] if len(ast) > 6 else (True, True, True, True))
    return ref.render_ref(a)


def write_xlsx(wb, path, sheet_order=None, cached=None):
    sb = xlsxw.SheetBuilder()
    for s in (sheet_order or []):
        sb.sheet(s)
    for key in sorted(wb.cells, key=lambda k: (k[0], k[2], k[1])):
        c = wb.cells[key]
        if c is None:
            continue
        s, col, row = key
        if is_formula(c):
            cv = None if cached is None else cached.get(key)
            sb.put_formula(s, col, row, ref.render(c[1]), cached=cv)
        else:
            sb.put_value(s, col, row, c)
    for name, target in wb.names.items():
        sb.names.append((name, name_target(target)))
    # names that are LOCAL to one sheet (localSheetId): (name, target, sheet)
    for name, target, sheet in getattr(wb, 'local_names', ()):
        sb.names.append((name, name_target(target), sb.order.index(sheet)))
    sb.write(path)


def model_from_xlsx(wb, path, sheet_order=None, ignore_sheets=(),
                    cached=None, keep=False):
    from xlcalculator import ModelCompiler
    write_xlsx(wb, path, sheet_order, cached)
    try:
        return ModelCompiler().read_and_parse_archive(
            path, ignore_sheets=list(ignore_sheets))
    finally:
        if not keep:
            try:
                os.remove(path)
            except OSError:
                pass


PROVENANCES = ('compiled', 'deepcopy', 'extracted', 'json')


def derive(model, provenance, scratch):
    """'A model' is any Model the public API hands out: the compiled one, a
    deep copy, the one restored from its JSON file (C12) or the one extracted
    with every cell and name in focus (C13).  scratch: path of a file this
    shard may overwrite."""
    if provenance == 'compiled':
        return model
    if provenance == 'deepcopy':
        import copy
        return copy.deepcopy(model)
    if provenance == 'extracted':
        from xlcalculator import ModelCompiler
        focus = list(model.cells) + list(model.defined_names)
        return ModelCompiler.extract(model, focus=focus)
    if provenance == 'json':
        from xlcalculator import Model
        os.makedirs(os.path.dirname(scratch), exist_ok=True)
        model.persist_to_json_file(scratch)
        try:
            m2 = Model()
            m2.construct_from_json_file(scratch, build_code=True)
        finally:
            try:
                os.remove(scratch)
            except OSError:
                pass
        return m2
    raise ValueError(provenance)
