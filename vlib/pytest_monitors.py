"""pytest plugin: run the repository's own tests with the result-domain
contract armed on every registered function and operator
(tools/tests_under_contracts.sh).  A contract that fires there is either too
strict or a defect the tests do not assert - each witness is read before
anything is relaxed."""
import json
import os

_state = {}


def pytest_configure(config):
    from vlib import harness, monitors
    ctx = harness.Ctx('selftest', 'quick', 0, 0, 1)
    import xlcalculator  # noqa: F401  (registers the functions)
    rec = monitors.TableRecorder(ctx, contract=True).install()
    _state['rec'] = rec


def pytest_sessionfinish(session, exitstatus):
    rec = _state.get('rec')
    if rec is None:
        return
    out = {
        'contract_evaluations': rec.contract_evals,
        'functions_called': len(rec.calls),
        'calls': sum(rec.calls.values()),
        'python_exceptions_escaped': rec.raised,
        'result_domain_breaks': rec.domain_breaks[:50],
    }
    path = os.environ.get('VERIF_CONTRACT_REPORT')
    if path:
        with open(path, 'w') as fp:
            json.dump(out, fp, indent=1)
    print('\n[verif contracts] evaluations=%d functions=%d domain_breaks=%d '
          'escaped=%s' % (rec.contract_evals, len(rec.calls),
                          len(rec.domain_breaks),
                          {k: v for k, v in rec.raised.items()}))
