"""Raw SpreadsheetML writer (zipfile + strings), independent of openpyxl's
writer: the generator decides every storage form itself.

write_xlsx(path, sheets, defined_names=(), shared_strings=())
  sheets: [(name, {row_number: [cell, ...]})], cell = dict(
      r='A1', t=None|'n'|'s'|'str'|'inlineStr'|'b'|'e', v=<text of <v>>,
      f=<formula text without '='>, f_attrs=' t="shared" si="0" ref="A1:A3"',
      s=<style index: 1 = date, 2 = time of day h:mm, 3 = duration [h]:mm:ss>)
"""
import zipfile
from xml.sax.saxutils import escape

NS = 'http://schemas.openxmlformats.org/spreadsheetml/2006/main'
REL = 'http://schemas.openxmlformats.org/officeDocument/2006/relationships'
PKG = 'http://schemas.openxmlformats.org/package/2006'
HDR = '<?xml version="1.0" encoding="UTF-8" standalone="yes"?>'


def write_xlsx(path, sheets, defined_names=(), shared_strings=(),
               date1904=False):
    ct = [HDR, f'<Types xmlns="{PKG}/content-types">'
          '<Default Extension="rels" ContentType="application/vnd.'
          'openxmlformats-package.relationships+xml"/>'
          '<Default Extension="xml" ContentType="application/xml"/>'
          '<Override PartName="/xl/workbook.xml" ContentType="application/'
          'vnd.openxmlformats-officedocument.spreadsheetml.sheet.main+xml"/>']
    for i, _ in enumerate(sheets, 1):
        ct.append(f'<Override PartName="/xl/worksheets/sheet{i}.xml" '
                  'ContentType="application/vnd.openxmlformats-officedocument.'
                  'spreadsheetml.worksheet+xml"/>')
    ct.append('<Override PartName="/xl/sharedStrings.xml" ContentType="'
              'application/vnd.openxmlformats-officedocument.spreadsheetml.'
              'sharedStrings+xml"/><Override PartName="/xl/styles.xml" '
              'ContentType="application/vnd.openxmlformats-officedocument.'
              'spreadsheetml.styles+xml"/></Types>')
    rels = (f'{HDR}<Relationships xmlns="{PKG}/relationships"><Relationship '
            f'Id="rId1" Type="{REL}/officeDocument" Target="xl/workbook.xml"/>'
            '</Relationships>')
    wb = [HDR, f'<workbook xmlns="{NS}" xmlns:r="{REL}">'
          + ('<workbookPr date1904="1"/>' if date1904 else '') + '<sheets>']
    wrels = [HDR, f'<Relationships xmlns="{PKG}/relationships">']
    for i, (name, _) in enumerate(sheets, 1):
        wb.append('<sheet name="%s" sheetId="%d" r:id="rId%d"/>' % (
            escape(name, {'"': '&quot;'}), i, i))
        wrels.append(f'<Relationship Id="rId{i}" Type="{REL}/worksheet" '
                     f'Target="worksheets/sheet{i}.xml"/>')
    n = len(sheets)
    wrels.append(f'<Relationship Id="rId{n + 1}" Type="{REL}/sharedStrings" '
                 f'Target="sharedStrings.xml"/><Relationship Id="rId{n + 2}" '
                 f'Type="{REL}/styles" Target="styles.xml"/></Relationships>')
    wb.append('</sheets>')
    if defined_names:
        wb.append('<definedNames>')
        for entry in defined_names:
            # (name, target) or (name, target, index of the sheet the name is
            # local to)
            nm, val = entry[0], entry[1]
            local = ' localSheetId="%d"' % entry[2] if len(entry) > 2 else ''
            wb.append('<definedName name="%s"%s>%s</definedName>' % (
                nm, local, escape(val)))
        wb.append('</definedNames>')
    wb.append('</workbook>')
    styles = (
        f'{HDR}<styleSheet xmlns="{NS}"><numFmts count="0"/><fonts count="1">'
        '<font><sz val="11"/><name val="Calibri"/></font></fonts><fills '
        'count="1"><fill><patternFill patternType="none"/></fill></fills>'
        '<borders count="1"><border><left/><right/><top/><bottom/><diagonal/>'
        '</border></borders><cellStyleXfs count="1"><xf numFmtId="0" '
        'fontId="0" fillId="0" borderId="0"/></cellStyleXfs><cellXfs '
        'count="4"><xf numFmtId="0" fontId="0" fillId="0" borderId="0" '
        'xfId="0"/><xf numFmtId="14" fontId="0" fillId="0" borderId="0" '
        'xfId="0" applyNumberFormat="1"/><xf numFmtId="20" fontId="0" '
        'fillId="0" borderId="0" xfId="0" applyNumberFormat="1"/><xf '
        'numFmtId="46" fontId="0" fillId="0" borderId="0" xfId="0" '
        'applyNumberFormat="1"/></cellXfs></styleSheet>')
    sst = (f'{HDR}<sst xmlns="{NS}" count="{len(shared_strings)}" '
           f'uniqueCount="{len(shared_strings)}">' + ''.join(
               '<si><t xml:space="preserve">%s</t></si>' % escape(s)
               for s in shared_strings) + '</sst>')
    with zipfile.ZipFile(path, 'w', zipfile.ZIP_DEFLATED) as z:
        z.writestr('[Content_Types].xml', ''.join(ct))
        z.writestr('_rels/.rels', rels)
        z.writestr('xl/workbook.xml', ''.join(wb))
        z.writestr('xl/_rels/workbook.xml.rels', ''.join(wrels))
        z.writestr('xl/styles.xml', styles)
        z.writestr('xl/sharedStrings.xml', sst)
        for i, (name, rows) in enumerate(sheets, 1):
            x = [HDR, f'<worksheet xmlns="{NS}"><sheetData>']
            for rnum in sorted(rows):
                x.append('<row r="%d">' % rnum)
                for c in rows[rnum]:
                    a = ' r="%s"' % c['r']
                    if c.get('t'):
                        a += ' t="%s"' % c['t']
                    if c.get('s'):
                        a += ' s="%s"' % c['s']
                    inner = ''
                    if 'f' in c:
                        inner += '<f%s>%s</f>' % (c.get('f_attrs', ''),
                                                  escape(c['f']))
                    if c.get('t') == 'inlineStr':
                        inner += ('<is><t xml:space="preserve">%s</t></is>'
                                  % escape(c['v']))
                    elif c.get('v') is not None:
                        inner += '<v>%s</v>' % escape(str(c['v']))
                    x.append('<c%s>%s</c>' % (a, inner))
                x.append('</row>')
            x.append('</sheetData></worksheet>')
            z.writestr('xl/worksheets/sheet%d.xml' % i, ''.join(x))


class SheetBuilder:
    """convenience: collect cells of several sheets, keep them sorted"""

    def __init__(self):
        self.sheets = {}       # name -> {(row, col): cell}
        self.order = []
        self.sst = []
        self.names = []
        self.date1904 = False

    def sheet(self, name):
        if name not in self.sheets:
            self.sheets[name] = {}
            self.order.append(name)
        return self.sheets[name]

    def shared(self, s):
        if s not in self.sst:
            self.sst.append(s)
        return self.sst.index(s)

    def put(self, sheet, col, row, **cell):
        from .ref import col_letters
        cell['r'] = f'{col_letters(col)}{row}'
        self.sheet(sheet)[(row, col)] = cell

    def put_value(self, sheet, col, row, v, form=None):
        """store a constant in a chosen (or default) storage form"""
        if isinstance(v, bool):
            self.put(sheet, col, row, t='b', v='1' if v else '0')
        elif isinstance(v, (int, float)):
            self.put(sheet, col, row, v=repr(v), **({'t': 'n'} if form == 'n'
                                                    else {}))
        elif isinstance(v, str):
            if form == 'inlineStr':
                self.put(sheet, col, row, t='inlineStr', v=v)
            elif form == 'str':
                self.put(sheet, col, row, t='str', v=v)
            else:
                self.put(sheet, col, row, t='s', v=self.shared(v))
        else:
            raise TypeError(v)

    def put_formula(self, sheet, col, row, text, cached=None, ctype=None,
                    f_attrs=''):
        c = {'f': text[1:] if text.startswith('=') else text}
        if f_attrs:
            c['f_attrs'] = f_attrs
        if cached is not None:
            c['v'] = cached
        if ctype:
            c['t'] = ctype
        self.put(sheet, col, row, **c)

    def write(self, path):
        sheets = []
        for name in self.order:
            rows = {}
            for (r, c) in sorted(self.sheets[name]):
                rows.setdefault(r, []).append(self.sheets[name][(r, c)])
            sheets.append((name, rows))
        write_xlsx(path, sheets, self.names, self.sst, self.date1904)
