"""Executable reference model of a spreadsheet, written from the property
statements only.  Never imports xlcalculator.

Values: int/float (numbers; int = "certainly rendered without a decimal
point"), str, bool, None (blank), Err(code).  AST (tuples):

    ('lit', value, text)                 literal with its formula rendering
    ('ref', sheet|None, col, row, abscol, absrow)
    ('rng', sheet|None, c1, r1, c2, r2, (abs flags x4))
    ('name', NAME)
    ('bin', op, left, right)  ('neg', x)  ('par', x)
    ('call', NAME, [args])
"""
import math


class Err:
    __slots__ = ('code',)

    def __init__(self, code):
        self.code = code

    def __eq__(self, other):
        return isinstance(other, Err) and other.code == self.code

    def __hash__(self):
        return hash(('Err', self.code))

    def __repr__(self):
        return f'Err({self.code})'


DIV0 = Err('#DIV/0!')
VALUE = Err('#VALUE!')
NUM = Err('#NUM!')
NA = Err('#N/A')
NAME = Err('#NAME?')
ERROR_CODES = ['#NULL!', '#DIV/0!', '#VALUE!', '#REF!', '#NAME?', '#NUM!',
               '#N/A']


# Quirk models: known defects of the subject that can be switched on ONE AT A
# TIME to test whether an observed wrong value is exactly what that mechanism
# produces (known-finding attribution).  FEATURES records which risky features
# an evaluation touched.
QUIRKS = set()
FEATURES = set()


class Undecided(Exception):
    """The statement does not fix the outcome of this case (the generator
    should not have produced it; the case is skipped, never judged)."""


class RefCycle(Exception):
    pass


class RefPythonError(Exception):
    """The reference itself says: this evaluation ends in a (non-Excel)
    failure, e.g. an unknown function or BOOM."""


def to_norm(v):
    if isinstance(v, Err):
        return ('err', v.code)
    if v is None:
        return ('blank',)
    if isinstance(v, bool):
        return ('bool', v)
    if isinstance(v, (int, float)):
        return ('num', float(v))
    if isinstance(v, str):
        return ('text', v)
    if isinstance(v, list):
        return ('array', [[to_norm(x) for x in row] for row in v])
    raise TypeError(v)


# -- coercions (C08) ---------------------------------------------------------

def num_of(v):
    """numeric coercion used by arithmetic: number, TRUE=1/FALSE=0, blank=0,
    numeric text; other text -> #VALUE!"""
    if isinstance(v, Err):
        return v
    if v is None:
        return 0
    if isinstance(v, bool):
        return 1 if v else 0
    if isinstance(v, (int, float)):
        return v
    if isinstance(v, str):
        s = v.strip()
        if s != v:
            raise Undecided('text with surrounding blanks as number')
        try:
            return int(s)
        except ValueError:
            pass
        try:
            f = float(s)
        except ValueError:
            if any(ch.isdigit() for ch in s):
                # may read as a date to a lenient date parser: whether such a
                # text "is numeric" is not fixed by the statements
                raise Undecided('text with digits that is not a number')
            return VALUE
        if not math.isfinite(f) or s.lower() in ('nan', 'inf', 'infinity'):
            raise Undecided('nan/inf text')
        if any(ch in s.lower() for ch in ('n', 'i', '_')):
            raise Undecided('python-only numeric text')
        return f
    raise TypeError(v)


def text_of(v):
    if isinstance(v, Err):
        return v
    if v is None:
        return ''
    if isinstance(v, bool):
        FEATURES.add('bool_text_title')
        if 'bool_text_title' in QUIRKS:
            return 'True' if v else 'False'
        return 'TRUE' if v else 'FALSE'
    if isinstance(v, int):
        return str(v)
    if isinstance(v, float):
        if v.is_integer():
            # Excel shows "2"; which spelling a whole float gets is decided
            # in C08/C17, not wherever a formula happens to concatenate one
            raise Undecided('text form of a whole float')
        r = repr(v)
        if 'e' in r or len(r) > 15:
            raise Undecided('text form of a long float')
        return r
    if isinstance(v, str):
        return v
    raise TypeError(v)


def truth_of(v):
    """IF/AND/OR/NOT truth rules (C10): TRUE / non-zero number -> True,
    FALSE / 0 / blank -> False; text not stated."""
    if isinstance(v, Err):
        return v
    if v is None:
        return False
    if isinstance(v, bool):
        return v
    if isinstance(v, (int, float)):
        return v != 0
    raise Undecided('text as a condition')


# -- the total order (C09) ----------------------------------------------------

def _rank(v):
    if isinstance(v, bool):
        return 2
    if isinstance(v, (int, float)):
        return 0
    if isinstance(v, str):
        return 1
    raise TypeError(v)


def compare(a, b):
    """-1/0/1 under: numbers < texts (case-insensitive) < FALSE < TRUE;
    blank = 0 = "" = FALSE; blank = blank."""
    if (a is None or b is None) and 'blank_compare_undecided' in QUIRKS:
        # used by checks that are not about comparisons: how a blank compares
        # (also with another blank: blank>=blank) is decided in C09 only
        raise Undecided('comparison with a blank')
    if a is None and b is None:
        return 0
    if isinstance(a, str) and b is not None and not isinstance(b, str):
        FEATURES.add('text_left_str_compare')
        if 'text_left_str_compare' in QUIRKS:
            # quirk: a text on the left compares the upper-cased string forms
            x = a.upper()
            forms = {str(b).upper()}
            if isinstance(b, (int, float)) and not isinstance(b, bool) and \
                    b == b and abs(b) != float('inf') and float(b).is_integer():
                # a whole number may be held as an int or as a float by the
                # implementation (FALSE^2 is 0 there and 0.0 here), a zero
                # with either sign: every spelling it may have
                forms |= {str(int(b)), repr(float(b))}
                if b == 0:
                    forms |= {'0', '-0', '0.0', '-0.0'}
            outs = {-1 if x < y else (1 if x > y else 0) for y in forms}
            if len(outs) > 1:
                raise Undecided('string form of a whole number under the '
                                'string-comparison mechanism')
            return outs.pop()
    if a is None:
        a = {0: 0, 1: '', 2: False}[_rank(b)]
    if b is None:
        b = {0: 0, 1: '', 2: False}[_rank(a)]
    ra, rb = _rank(a), _rank(b)
    if ra != rb:
        return -1 if ra < rb else 1
    if ra == 1:
        a, b = a.upper(), b.upper()
    return -1 if a < b else (1 if a > b else 0)


CMP = {'=': lambda c: c == 0, '<>': lambda c: c != 0, '<': lambda c: c < 0,
       '>': lambda c: c > 0, '<=': lambda c: c <= 0, '>=': lambda c: c >= 0}


def binop(op, a, b):
    if isinstance(a, list) or isinstance(b, list):
        raise Undecided('array operand')
    real_a, real_b = isinstance(a, Err), isinstance(b, Err)
    if (real_a or real_b) and op not in CMP and op != '&':
        # an error VALUE next to an operand that cannot be coerced: two
        # failures at once, the statements only rank error values
        other = b if real_a else a
        if not isinstance(other, Err):
            c = num_of(other)          # may itself be undecided
            if isinstance(c, Err):
                raise Undecided('error value next to a non-numeric operand')
    if real_a:
        return a
    if real_b:
        return b
    if op in CMP:
        return CMP[op](compare(a, b))
    if op == '&':
        ta, tb = text_of(a), text_of(b)
        return ta + tb
    x, y = num_of(a), num_of(b)
    if isinstance(x, Err) and op == '/' and not isinstance(y, Err) \
            and y == 0:
        # a text that is not a number divided by zero: #VALUE! and #DIV/0!
        # both apply, the statements do not rank them
        raise Undecided('non-numeric text divided by zero')
    if isinstance(x, Err):
        return x
    if isinstance(y, Err):
        return y
    try:
        if op == '+':
            return x + y
        if op == '-':
            return x - y
        if op == '*':
            return x * y
        if op == '/':
            if y == 0:
                return DIV0
            return x / y
        if op == '^':
            if x == 0 and y < 0:
                raise Undecided('0^negative')
            if x == 0 and y == 0:
                raise Undecided('0^0')
            if x < 0 and float(y) != int(y):
                raise Undecided('negative base, fractional exponent')
            r = float(x) ** float(y)
            if isinstance(r, complex) or not math.isfinite(r):
                raise Undecided('power overflow')
            return r
    except OverflowError:
        raise Undecided('overflow')
    raise ValueError(op)


def neg(a):
    if isinstance(a, Err):
        return a
    x = num_of(a)
    if isinstance(x, Err):
        return x
    return -x


# -- flattening ranges for aggregates (C14) -----------------------------------

def _items(args):
    """-> list of (value, from_range)"""
    out = []
    for a in args:
        if isinstance(a, list):
            for row in a:
                for v in row:
                    out.append((v, True))
        else:
            out.append((a, False))
    return out


def _first_err(items):
    for v, _ in items:
        if isinstance(v, Err):
            return v
    return None


def _numbers(items, fname):
    nums = []
    for v, from_range in items:
        if from_range:
            if isinstance(v, bool):
                raise Undecided('boolean inside a range')
            if isinstance(v, (int, float)):
                nums.append(v)
            elif isinstance(v, str):
                if v != '' and not isinstance(num_of_safe(v), Err):
                    raise Undecided('numeric-looking text inside a range')
            # blanks and text ignored
        else:
            if v is None or isinstance(v, (bool, str)):
                raise Undecided('non-numeric scalar argument of ' + fname)
            nums.append(v)
    return nums


def num_of_safe(v):
    try:
        return num_of(v)
    except Undecided:
        return 0


def f_sum(args):
    items = _items(args)
    e = _first_err(items)
    if e:
        return e
    return math.fsum(_numbers(items, 'SUM')) if False else sum(
        _numbers(items, 'SUM'))


def f_average(args):
    items = _items(args)
    e = _first_err(items)
    if e:
        return e
    nums = _numbers(items, 'AVERAGE')
    if not nums:
        raise Undecided('AVERAGE over no number')
    return sum(nums) / len(nums)


def f_min(args):
    items = _items(args)
    e = _first_err(items)
    if e:
        return e
    nums = _numbers(items, 'MIN')
    if not nums:
        raise Undecided('MIN over no number')
    return min(nums)


def f_max(args):
    items = _items(args)
    e = _first_err(items)
    if e:
        return e
    nums = _numbers(items, 'MAX')
    if not nums:
        raise Undecided('MAX over no number')
    return max(nums)


def f_count(args):
    n = 0
    for v, from_range in _items(args):
        if isinstance(v, bool):
            raise Undecided('boolean in COUNT')
        if isinstance(v, (int, float)):
            n += 1
        elif isinstance(v, str) and not from_range and v != '':
            raise Undecided('text scalar in COUNT')
    return n


def f_counta(args):
    n = 0
    for v, from_range in _items(args):
        if v is None:
            continue
        if isinstance(v, str) and v == '':
            raise Undecided('empty text in COUNTA')
        n += 1
    return n


def f_sumproduct(args):
    arrays = []
    for a in args:
        if not isinstance(a, list):
            raise Undecided('scalar SUMPRODUCT argument')
        arrays.append(a)
    shape = (len(arrays[0]), len(arrays[0][0]))
    for a in arrays:
        if (len(a), len(a[0])) != shape:
            return VALUE
    e = _first_err(_items(arrays))
    if e:
        return e
    total = 0
    for i in range(shape[0]):
        for j in range(shape[1]):
            p = 1
            for a in arrays:
                v = a[i][j]
                if isinstance(v, bool):
                    raise Undecided('boolean in SUMPRODUCT')
                if not isinstance(v, (int, float)):
                    v = 0          # blanks / text count as zero terms
                p *= v
            total += p
    return total


def f_concat(args):
    out = ''
    for v, _ in _items(args):
        if isinstance(v, Err):
            return v
        out += text_of(v)
    return out


def f_sign(args):
    v = _scalar(args[0])
    if isinstance(v, Err):
        return v
    x = num_of(v)
    if isinstance(x, Err):
        return x
    return (x > 0) - (x < 0)


def f_abs(args):
    v = _scalar(args[0])
    if isinstance(v, Err):
        return v
    x = num_of(v)
    return x if isinstance(x, Err) else abs(x)


EAGER = {
    'SIGN': f_sign, 'ABS': f_abs,
    'SUM': f_sum, 'AVERAGE': f_average, 'MIN': f_min, 'MAX': f_max,
    'COUNT': f_count, 'COUNTA': f_counta, 'SUMPRODUCT': f_sumproduct,
    'CONCAT': f_concat, 'CONCATENATE': f_concat,
}


def _scalar(v):
    if isinstance(v, list):
        raise Undecided('array where a scalar is expected')
    return v


# -- workbook -----------------------------------------------------------------

def col_letters(n):
    s = ''
    while n > 0:
        n, r = divmod(n - 1, 26)
        s = chr(65 + r) + s
    return s


def col_index(s):
    n = 0
    for ch in s:
        n = n * 26 + (ord(ch) - 64)
    return n


class Workbook:
    """cells: {(sheet, col, row): constant | ('f', ast)};
    names: {NAME: ('ref', ...) | ('rng', ...)} with explicit sheets."""

    def __init__(self, cells=None, names=None):
        self.cells = dict(cells or {})
        self.names = dict(names or {})
        self.spy_log = []
        self.extra_funcs = {}

    def copy(self):
        w = Workbook(self.cells, self.names)
        w.extra_funcs = dict(self.extra_funcs)
        return w

    # evaluation with per-call memo and cycle detection
    def value(self, key, memo=None, stack=None):
        memo = {} if memo is None else memo
        stack = [] if stack is None else stack
        if key in memo:
            return memo[key]
        if key in stack:
            raise RefCycle(key)
        c = self.cells.get(key)
        if isinstance(c, tuple) and len(c) == 2 and c[0] == 'f':
            stack.append(key)
            try:
                v = _scalar_or_array(self.eval(c[1], key[0], memo, stack))
            finally:
                stack.pop()
        else:
            v = c
        memo[key] = v
        return v

    def eval(self, ast, sheet, memo=None, stack=None):
        memo = {} if memo is None else memo
        stack = [] if stack is None else stack
        k = ast[0]
        if k == 'lit':
            return ast[1]
        if k == 'par':
            return self.eval(ast[1], sheet, memo, stack)
        if k == 'neg':
            return neg(_scalar(self.eval(ast[1], sheet, memo, stack)))
        if k == 'bin':
            a = _scalar(self.eval(ast[2], sheet, memo, stack))
            b = _scalar(self.eval(ast[3], sheet, memo, stack))
            return binop(ast[1], a, b)
        if k == 'ref':
            s = ast[1] if ast[1] is not None else sheet
            return self.value((s, ast[2], ast[3]), memo, stack)
        if k == 'rng':
            s = ast[1] if ast[1] is not None else sheet
            c1, r1, c2, r2 = ast[2:6]
            return [[self.value((s, c, r), memo, stack)
                     for c in range(min(c1, c2), max(c1, c2) + 1)]
                    for r in range(min(r1, r2), max(r1, r2) + 1)]
        if k == 'name':
            return self.eval(self.names[ast[1]], sheet, memo, stack)
        if k == 'call':
            return self.call(ast[1], ast[2], sheet, memo, stack)
        raise ValueError(ast)

    def call(self, name, args, sheet, memo, stack):
        ev = lambda a: self.eval(a, sheet, memo, stack)  # noqa: E731
        if name == 'IF':
            c = truth_of(_scalar(ev(args[0])))
            if isinstance(c, Err):
                return c
            if c:
                if len(args) < 2:
                    raise Undecided('IF without a true branch')
                return ev(args[1])
            if len(args) < 3:
                return False
            return ev(args[2])
        if name in ('AND', 'OR'):
            # reference = full (non short-circuit) semantics; the monitor
            # separately checks that stopping early only happens after a
            # deciding element (C10)
            vals = []
            for a in args:
                vals.extend(v for v, _ in _items([ev(a)]))
            truths = []
            for v in vals:
                if isinstance(v, Err):
                    return v
                if v is None:
                    continue
                truths.append(truth_of(v))
            if not truths:
                raise Undecided('AND/OR over blanks only')
            return all(truths) if name == 'AND' else any(truths)
        if name == 'NOT':
            t = truth_of(_scalar(ev(args[0])))
            return t if isinstance(t, Err) else (not t)
        if name == 'SPY':
            ident = ev(args[0])
            self.spy_log.append(int(ident))
            return ev(args[1]) if len(args) > 1 else None
        if name == 'BOOM':
            x = ev(args[0]) if args else 1
            if isinstance(x, Err) or num_of(x) != 0:
                raise RefPythonError('BOOM')
            return 0
        if name == 'ISBLANK':
            return _scalar(ev(args[0])) is None
        if name == 'ISNUMBER':
            v = _scalar(ev(args[0]))
            return isinstance(v, (int, float)) and not isinstance(v, bool)
        if name == 'ISTEXT':
            return isinstance(_scalar(ev(args[0])), str)
        if name == 'ISERROR':
            return isinstance(_scalar(ev(args[0])), Err)
        if name == 'NA':
            return NA
        if name in self.extra_funcs:
            return self.extra_funcs[name]([ev(a) for a in args])
        if name in EAGER:
            return EAGER[name]([ev(a) for a in args])
        raise RefPythonError('unknown function ' + name)


def _scalar_or_array(v):
    return v


# -- rendering ---------------------------------------------------------------

PREC = {'^': 5, '*': 4, '/': 4, '+': 3, '-': 3, '&': 2,
        '=': 1, '<>': 1, '<': 1, '>': 1, '<=': 1, '>=': 1}
BINOPS = list(PREC)


def quote_sheet(name, force=False):
    simple = name.replace('_', 'a').isalnum() and not name[0].isdigit()
    if simple and not force:
        return name
    return "'" + name.replace("'", "''") + "'"


def render_ref(ast, quote_all=False):
    if ast[0] == 'ref':
        _, sheet, col, row, ac, ar = ast
        s = ('$' if ac else '') + col_letters(col) + ('$' if ar else '') + \
            str(row)
    else:
        _, sheet, c1, r1, c2, r2, fl = ast
        s = (('$' if fl[0] else '') + col_letters(c1)
             + ('$' if fl[1] else '') + str(r1) + ':'
             + ('$' if fl[2] else '') + col_letters(c2)
             + ('$' if fl[3] else '') + str(r2))
    if sheet is not None:
        s = quote_sheet(sheet, quote_all) + '!' + s
    return s


def render(ast, style='minimal', sp=None):
    """style: minimal | full | doubled.  sp: None or a callable returning the
    blank string to put at a token boundary."""
    b = sp or (lambda: '')

    def paren(s, times=1):
        for _ in range(times):
            s = '(' + b() + s + b() + ')'
        return s

    def go(a):
        k = a[0]
        if k == 'lit':
            return a[2]
        if k in ('ref', 'rng'):
            return render_ref(a)
        if k == 'name':
            return a[1]
        if k == 'par':
            return paren(go(a[1]))
        if k == 'call':
            inner = (b() + ',' + b()).join(go(x) for x in a[2])
            return a[1] + '(' + b() + inner + b() + ')'
        if k == 'neg':
            x = a[1]
            s = go(x)
            if _core(x)[0] == 'bin' and x[0] != 'par':
                s = paren(s)
            elif style != 'minimal' and x[0] not in ('par',):
                s = paren(s, 2 if style == 'doubled' else 1)
            return '-' + s
        if k == 'bin':
            op, l, r = a[1], a[2], a[3]
            p = PREC[op]
            ls, rs = go(l), go(r)
            lneed = l[0] == 'bin' and PREC[l[1]] < p
            rneed = r[0] == 'bin' and PREC[r[1]] <= p
            if style == 'minimal':
                if lneed:
                    ls = paren(ls)
                if rneed:
                    rs = paren(rs)
            else:
                t = 2 if style == 'doubled' else 1
                if l[0] in ('bin', 'neg') or lneed:
                    ls = paren(ls, t)
                elif style == 'doubled':
                    ls = paren(ls, 1)
                if r[0] in ('bin', 'neg') or rneed:
                    rs = paren(rs, t)
                elif style == 'doubled':
                    rs = paren(rs, 1)
            return ls + b() + op + b() + rs
        raise ValueError(a)
    return go(ast)


def _core(a):
    while a[0] == 'par':
        a = a[1]
    return a
