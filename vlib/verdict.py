"""Three-valued verdicts, known-finding classification, evidence and replay
files."""
import json
import os
import re

from . import bootstrap

KF_FILE = os.path.join(bootstrap.VERIF, 'known_findings.txt')
EVIDENCE_DIR = os.path.join(bootstrap.VERIF, 'evidence')
REPLAY_DIR = os.path.join(bootstrap.VERIF, 'out', 'replay')

_LINE = re.compile(
    r'^(finding|fixed):\s+property=(C\d+)\s+(?:(\S+)\s+)?id=(\S+)\s*::\s*(.*)$')


def load_known_findings(path=KF_FILE):
    """-> {'finding': {(prop, id): desc}, 'fixed': {(prop, id): (commit, desc)}}
    The file is read-only for the checks."""
    out = {'finding': {}, 'fixed': {}}
    if not os.path.exists(path):
        return out
    with open(path) as fp:
        for line in fp:
            line = line.rstrip('\n')
            if not line.strip() or line.lstrip().startswith('#'):
                continue
            m = _LINE.match(line.strip())
            if not m:
                continue
            kind, prop, commit, kid, desc = m.groups()
            if kind == 'finding':
                out['finding'][(prop, kid)] = desc
            else:
                out['fixed'][(prop, kid)] = (commit, desc)
    return out


def decide(prop, mod, merged, tier, seed, wall_s, print_fn=print):
    kf = load_known_findings()
    listed = {kid: d for (p, kid), d in kf['finding'].items() if p == prop}
    violations = []
    known = {}
    for c in merged['candidates']:
        if c.get('kf') and c['kf'] in listed:
            known.setdefault(c['kf'], []).append(c)
        else:
            violations.append(c)
    # counts (candidates kept are capped per shard; counts are complete)
    n_viol = sum(v for k, v in merged['cand_counts'].items()
                 if k == 'violation' or k not in listed)
    kf_counts = {k: v for k, v in merged['cand_counts'].items() if k in listed}

    inconclusive = list(merged['inconclusive'])
    floors = dict(getattr(mod, 'FLOORS', {}))
    tier_floors = getattr(mod, 'TIER_FLOORS', {}).get(tier, {})
    floors.update(tier_floors)
    for name, minimum in floors.items():
        got = merged['counters'].get(name, 0)
        if got < minimum:
            inconclusive.append(
                f'monitor counter {name}={got} below floor {minimum}')
    if merged['evaluations'] < 1:
        inconclusive.append('no executions observed')
    if len(merged['nt']) < 2:
        inconclusive.append('fewer than 2 distinct non-trivial cases')
    # anchor-coverage gate.  Per-function hits are EVIDENCE (function names are
    # internal: a correct refactoring may rename them); the gate itself is on
    # the anchored FILE: if no function of it ran at all, the workload did not
    # reach the code the property is anchored in.
    anchors_hit = {}
    for f, funcs in getattr(mod, 'ANCHOR_FUNCS', {}).items():
        got = merged['coverage'].get(f, {})
        for q in funcs:
            anchors_hit[f'{f}::{q}'] = got.get(q, 0)
            if got.get(q, 0) == 0:
                merged['notes'].append(
                    f'anchored function not seen under this name: {f}::{q}')
        if not got and os.path.exists(os.path.join(
                bootstrap.repo_root(), f)):
            inconclusive.append(f'no function of the anchored file {f} was '
                                f'executed')

    # replay files for violations (first 10)
    os.makedirs(REPLAY_DIR, exist_ok=True)
    replay_paths = []
    for n, c in enumerate(violations[:10]):
        path = os.path.join(REPLAY_DIR, f'{prop}-{tier}-{seed}-{n}.json')
        with open(path, 'w') as fp:
            json.dump({'property': prop, 'tier': tier, 'seed': seed, **c},
                      fp, indent=1, ensure_ascii=False)
        replay_paths.append(path)

    if n_viol:
        verdict = 'violated'
    elif inconclusive:
        verdict = 'inconclusive'
    else:
        verdict = 'held'

    coverage = {
        'evaluations': int(merged['evaluations']),
        'distinct_nontrivial': len(merged['nt']),
        'rule': getattr(mod, 'RULE', ''),
        'samples': merged['samples'][:10] or ['(no sample recorded)'],
        'exhaustive': bool(getattr(mod, 'EXHAUSTIVE', False)),
        'exhaustive_blocks': merged['blocks'],
        'monitors': merged['counters'],
        'anchor_lines_hit': anchors_hit,
        'functions_executed': sum(len(v) for v in merged['coverage'].values()),
        'known_findings_seen': kf_counts,
        'known_findings_listed_not_seen': sorted(
            k for k in listed if k not in kf_counts),
        'violation_candidates': n_viol,
        'violation_samples': [
            {'what': c['what'], 'witness': c['witness']}
            for c in violations[:5]],
        'inconclusive_reasons': inconclusive,
        'verdict': verdict,
        'shards': len(merged['shard_status']),
        'notes': merged['notes'][:30],
    }
    ev = {
        'property_id': prop, 'tier': tier, 'seed': int(seed),
        'level': getattr(mod, 'LEVEL', 'exploration'),
        'coverage': coverage,
        'assumptions': list(getattr(mod, 'ASSUMPTIONS', [])),
        'wall_s': round(float(wall_s), 2),
        'violations': int(n_viol),
    }
    os.makedirs(EVIDENCE_DIR, exist_ok=True)
    path = os.path.join(EVIDENCE_DIR, f'{prop}.json')
    tmp = path + '.tmp'
    with open(tmp, 'w') as fp:
        json.dump(ev, fp, indent=1, ensure_ascii=False, sort_keys=False)
    os.replace(tmp, path)

    for kid in sorted(kf_counts):
        print_fn(f'KNOWN-FINDING: property={prop} {kid} {listed[kid]} '
                 f'[{kf_counts[kid]} cases]')
    for kid in sorted(coverage['known_findings_listed_not_seen']):
        print_fn(f'note: listed finding {kid} not re-observed in this run')
    print_fn(f'{prop} {tier} seed={seed}: {verdict}; '
             f'evaluations={coverage["evaluations"]} '
             f'distinct_nontrivial={coverage["distinct_nontrivial"]} '
             f'wall={ev["wall_s"]}s')
    if verdict == 'violated':
        if not replay_paths:
            replay_paths = [path]
        for c, rp in zip(violations[:10], replay_paths):
            print_fn(f'  what: {c["what"]}')
        print_fn(f'VIOLATION property={prop} replay={replay_paths[0]}')
        return 1
    if verdict == 'inconclusive':
        for r in inconclusive[:10]:
            print_fn(f'INCONCLUSIVE property={prop} reason={r}')
        return 2
    return 0
