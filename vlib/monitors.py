"""The monitor kit: value normalisation, function-table recorder with the
result-domain contract (icontract), evaluate recorder + step budget, spies."""
import datetime
import functools
import math

from .harness import MonitorAbort


class ResultDomainBroken(Exception):
    pass


# -- canonical view of a library value --------------------------------------

def norm(v):
    """Library value -> ('num', float) | ('text', s) | ('bool', b) |
    ('blank',) | ('err', code) | ('date', iso) | ('array', rows) |
    ('other', repr)."""
    from xlcalculator.xlfunctions import func_xltypes as T, xlerrors
    import numpy
    if isinstance(v, xlerrors.ExcelError):
        return ('err', str(v.value))
    if isinstance(v, T.Blank) or v is None:
        return ('blank',)
    if isinstance(v, T.Boolean):
        return ('bool', bool(v.value))
    if isinstance(v, (bool, numpy.bool_)):
        return ('bool', bool(v))
    if isinstance(v, T.Number):
        v = v.value
    if isinstance(v, (int, float, numpy.integer, numpy.floating)):
        try:
            return ('num', float(v))
        except OverflowError:
            # an integer beyond the double range: no cell can hold it
            return ('num', float('inf') if v > 0 else float('-inf'))
    if isinstance(v, T.Text):
        return ('text', v.value)
    if isinstance(v, str):
        return ('text', v)
    if isinstance(v, T.DateTime):
        return ('date', v.value.isoformat())
    if isinstance(v, datetime.datetime):
        return ('date', v.isoformat())
    if isinstance(v, T.Array):
        return ('array', [[norm(x) for x in row] for row in v.values.tolist()])
    if isinstance(v, (list, tuple)):
        return ('array', [norm(x) for x in v])
    return ('other', repr(v)[:200])


def in_result_domain(result):
    """The result of a registered function is an Excel value, an Excel error or
    a native scalar/array, and a float result is finite."""
    n = norm(result)
    if n[0] == 'other':
        return False
    if n[0] == 'num' and not math.isfinite(n[1]):
        return False
    return True


def call_outcome(func, *args):
    """Call a registered function the way a user would; -> ('value', norm) or
    ('raised', 'TypeName: message')."""
    try:
        r = func(*args)
    except MonitorAbort:
        raise
    except RecursionError as e:
        return ('raised', 'RecursionError: ' + str(e)[:80])
    except Exception as e:  # noqa
        return ('raised', f'{type(e).__name__}: {str(e)[:160]}')
    except BaseException as e:  # noqa
        if type(e).__name__ == '_Deadline':
            raise
        return ('raised', f'{type(e).__name__}: {str(e)[:160]}')
    return ('value', norm(r))


def call_outcome_raw(func, *args):
    """like call_outcome, the value handed back as it is (to pass it on)"""
    try:
        return ('value', func(*args))
    except MonitorAbort:
        raise
    except RecursionError as e:
        return ('raised', 'RecursionError: ' + str(e)[:80])
    except Exception as e:  # noqa
        return ('raised', f'{type(e).__name__}: {str(e)[:160]}')


def call_with_deadline(func, args, seconds=5):
    """call_outcome under a wall-clock alarm (main thread only): a call that
    does not return within `seconds` is reported as ('raised', 'Timeout...')
    - used only for inputs whose correct answer is immediate."""
    import signal

    class _Deadline(BaseException):
        pass

    def on_alarm(signum, frame):
        raise _Deadline()
    old = signal.signal(signal.SIGALRM, on_alarm)
    signal.alarm(seconds)
    try:
        return call_outcome(func, *args)
    except _Deadline:
        return ('raised', f'Timeout: no result within {seconds} s')
    finally:
        signal.alarm(0)
        signal.signal(signal.SIGALRM, old)


# -- function-table recorder -------------------------------------------------

class TableRecorder:
    """Replaces every entry of xl.FUNCTIONS and of the operator tables in
    ast_nodes by a recording wrapper carrying the result-domain contract.
    Must be installed before any Evaluator is constructed (Evaluator copies the
    table)."""

    def __init__(self, ctx, contract=True, names=None):
        self.ctx = ctx
        self.calls = {}            # name -> count
        self.raised = {}           # name -> {exception type: count}
        self.domain_breaks = []    # (name, args repr, result repr)
        self.contract_evals = 0
        self.contract = contract
        self.names = names
        self.installed = False
        self._orig = {}

    def _wrap(self, name, func):
        rec = self
        checked = func
        state = {}
        if self.contract:
            import icontract

            def result_in_domain(result):
                # records and returns True (a raising contract would abort
                # the execution it observes)
                rec.contract_evals += 1
                if not in_result_domain(result):
                    if len(rec.domain_breaks) < 200:
                        rec.domain_breaks.append(
                            (name, state.get('args'), repr(result)[:80]))
                return True
            checked = icontract.ensure(
                result_in_domain, error=ResultDomainBroken)(func)

        @functools.wraps(func)
        def recorder(*a, **kw):
            rec.calls[name] = rec.calls.get(name, 0) + 1
            state['args'] = repr(a)[:200]
            try:
                return checked(*a, **kw)
            except MonitorAbort:
                raise
            except BaseException as e:
                d = rec.raised.setdefault(name, {})
                t = type(e).__name__
                d[t] = d.get(t, 0) + 1
                raise
        recorder.__verif_wrapped__ = func
        return recorder

    def install(self):
        from xlcalculator.xlfunctions import xl
        from xlcalculator import ast_nodes
        wrapped = {}
        for name, func in list(xl.FUNCTIONS.items()):
            if self.names is not None and name not in self.names:
                continue
            w = self._wrap(name, func)
            wrapped[id(func)] = w
            self._orig[name] = func
            xl.FUNCTIONS[name] = w
        # (the operator tables are internal: when a refactoring has moved
        # them, the registry wrappers above still observe named calls)
        tables = [getattr(ast_nodes, n, None) for n in (
            'INFIX_OP_TO_FUNC', 'PREFIX_OP_TO_FUNC', 'POSTFIX_OP_TO_FUNC')]
        for table in [t for t in tables if isinstance(t, dict)]:
            for sym, func in list(table.items()):
                w = wrapped.get(id(func))
                if w is None:
                    if self.names is not None:
                        continue
                    w = self._wrap('op:' + sym, func)
                table[sym] = w
        self.installed = True
        return self

    def report(self):
        self.ctx.event('table_calls', sum(self.calls.values()))
        self.ctx.event('contract_evals', self.contract_evals)
        self.ctx.data.setdefault('table_calls', {})
        for k, v in self.calls.items():
            d = self.ctx.data['table_calls']
            d[k] = d.get(k, 0) + v


# -- evaluate recorder + step budget ----------------------------------------

class EvalRecorder:
    """Wraps Evaluator.evaluate: counts entries, tracks nesting, enforces an
    armed step budget with MonitorAbort."""

    def __init__(self):
        self.entries = 0
        self.depth = 0
        self.max_depth = 0
        self.budget = None
        self.depth_budget = None
        self.installed = False

    def arm(self, budget=None, depth_budget=None):
        self.entries = 0
        self.depth = 0
        self.max_depth = 0
        self.budget = budget
        self.depth_budget = depth_budget

    def install(self):
        from xlcalculator import evaluator
        rec = self
        orig = evaluator.Evaluator.evaluate

        @functools.wraps(orig)
        def evaluate(self_, addr, context=None):
            rec.entries += 1
            rec.depth += 1
            if rec.depth > rec.max_depth:
                rec.max_depth = rec.depth
            try:
                if rec.budget is not None and rec.entries > rec.budget:
                    raise MonitorAbort('step budget exceeded')
                if (rec.depth_budget is not None
                        and rec.depth > rec.depth_budget):
                    raise MonitorAbort('nesting budget exceeded')
                return orig(self_, addr, context)
            finally:
                rec.depth -= 1
        evaluator.Evaluator.evaluate = evaluate
        self.installed = True
        return self


# -- spies ---------------------------------------------------------------------

class Spies:
    """SPY(id, value) logs id and returns value; BOOM(x) raises a Python error
    when x is non-zero, else returns 0."""

    def __init__(self):
        self.log = []

    def install(self):
        from xlcalculator.xlfunctions import xl, func_xltypes
        spies = self

        def SPY(ident: func_xltypes.XlAnything,
                value: func_xltypes.XlAnything = None
                ) -> func_xltypes.XlAnything:
            try:
                spies.log.append(int(float(ident)))
            except Exception:
                spies.log.append(repr(ident))
            return value

        def BOOM(x: func_xltypes.XlAnything = 1) -> func_xltypes.XlAnything:
            try:
                nz = float(x) != 0
            except Exception:
                nz = True
            if nz:
                raise RuntimeError('BOOM')
            return 0
        xl.FUNCTIONS['SPY'] = SPY
        xl.FUNCTIONS['BOOM'] = BOOM
        return self

    def take(self):
        log, self.log = self.log, []
        return log


# -- dereference tracer (diagnostic, never decides) ---------------------------

class DerefTracer:
    """Wraps EvaluatorContext.eval_cell (outside its cache) and RangeNode.eval:
    which (formula cell, context sheet, requested address) were dereferenced."""

    def __init__(self, keep=False):
        self.requests = 0
        self.cross_sheet = 0
        self.range_evals = 0
        self.keep = keep
        self.trace = []

    def install(self):
        from xlcalculator import evaluator, ast_nodes
        tr = self
        ctx_cls = getattr(evaluator, 'EvaluatorContext', None)
        if ctx_cls is None or not hasattr(ctx_cls, 'eval_cell') or \
                not hasattr(getattr(ast_nodes, 'RangeNode', None), 'eval'):
            return self        # internals moved: the tracer is diagnostic only
        orig = evaluator.EvaluatorContext.eval_cell

        def eval_cell(ctx_, addr):
            tr.requests += 1
            if '!' in addr and addr.split('!')[0] != ctx_.refsheet:
                tr.cross_sheet += 1
            if tr.keep and len(tr.trace) < 10000:
                tr.trace.append((ctx_.ref, ctx_.sheet, addr))
            return orig(ctx_, addr)
        evaluator.EvaluatorContext.eval_cell = eval_cell
        orig_r = ast_nodes.RangeNode.eval

        def range_eval(node, context):
            if ':' in str(node.tvalue):
                tr.range_evals += 1
            return orig_r(node, context)
        ast_nodes.RangeNode.eval = range_eval
        return self

    def take(self):
        t, self.trace = self.trace, []
        return t
