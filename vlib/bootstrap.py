"""Locate the repository under test, make third-party monitor deps available.

Everything here is checkout-relative: deps are installed from the offline
wheelhouse into <verif>/.deps (git-ignored), the repository root is
VERIF_REPO_ROOT or /repo and is put FIRST on sys.path so that the working tree
(not a stale copy) is imported; the import location is asserted.
"""
import os
import subprocess
import sys

VERIF = os.path.dirname(os.path.dirname(os.path.abspath(__file__)))
DEPS = os.path.join(VERIF, '.deps')
WHEELS = '/opt/veriftools/wheels'
PY = '/venv/bin/python'
GUARD = 'XLCALCULATOR_VERIF'


def repo_root():
    return os.path.abspath(os.environ.get('VERIF_REPO_ROOT', '/repo'))


def ensure_deps(quiet=True):
    """Install icontract + mpmath beside the check (idempotent, offline)."""
    need = [p for p in ('icontract', 'mpmath')
            if not os.path.isdir(os.path.join(DEPS, p))]
    if not need:
        return True
    os.makedirs(DEPS, exist_ok=True)
    cmd = [PY, '-m', 'pip', 'install', '--no-index', '--find-links', WHEELS,
           '--target', DEPS, '--quiet', '--disable-pip-version-check',
           'icontract', 'mpmath']
    env = dict(os.environ, PIP_NO_INDEX='1')
    r = subprocess.run(cmd, env=env, capture_output=True, text=True)
    if r.returncode != 0 and not quiet:
        sys.stderr.write(r.stdout + r.stderr)
    return r.returncode == 0


def child_env(seed):
    env = dict(os.environ)
    env['PYTHONHASHSEED'] = '0'
    env[GUARD] = '1'
    env['PYTHONPATH'] = os.pathsep.join([repo_root(), VERIF, DEPS])
    env['OPENBLAS_NUM_THREADS'] = '1'
    env['OMP_NUM_THREADS'] = '1'
    env['MKL_NUM_THREADS'] = '1'
    env['PYTHONDONTWRITEBYTECODE'] = '1'
    env['VERIF_SEED'] = str(seed)
    return env


def import_subject():
    """Import xlcalculator from the repo root and assert where it came from."""
    root = repo_root()
    for p in (DEPS, VERIF, root):
        if p in sys.path:
            sys.path.remove(p)
        sys.path.insert(0, p)
    import warnings
    warnings.filterwarnings('ignore')
    import logging
    logging.disable(logging.CRITICAL)
    import xlcalculator
    got = os.path.abspath(xlcalculator.__file__)
    if not got.startswith(root + os.sep):
        raise RuntimeError(
            f'xlcalculator imported from {got}, expected under {root}')
    return xlcalculator
