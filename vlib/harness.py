"""Shard context (what a check's workload talks to) and the supervisor.

A check module (checks/cNN.py) provides

    PROPERTY = 'C07'
    RULE     = '...how cases are generated and what makes one non-trivial...'
    ANCHORS  = ['xlcalculator/xlfunctions/xl.py', ...]   (coverage gate)
    FLOORS   = {'counter name': minimum events, ...}      (inconclusive below)
    def shards(tier): -> int
    def run(ctx):      workload of shard ctx.shard of ctx.nshards
    def offline(merged, ctx): optional whole-history checker in the supervisor

and reports through ctx: ctx.case(), ctx.event(), ctx.fail(), ctx.sample().
"""
import hashlib
import json
import os
import random
import resource
import subprocess
import sys
import time
import traceback

from . import bootstrap

MAX_CANDIDATES_KEPT = 400    # per shard
MAX_PER_GROUP = 4            # per shard, per (bucket, group of similar witnesses)
MAX_SAMPLES = 8


class MonitorAbort(BaseException):
    """Raised by a monitor to stop an execution (not an Exception, so the
    subject's `except Exception` cannot swallow or re-wrap it)."""


def _h(obj):
    return hashlib.blake2b(
        repr(obj).encode('utf-8', 'backslashreplace'), digest_size=8
    ).hexdigest()


def jsonable(x, depth=0):
    if depth > 6:
        return repr(x)
    if x is None or isinstance(x, (bool, int, str)):
        return x
    if isinstance(x, float):
        if x != x or x in (float('inf'), float('-inf')):
            return repr(x)
        return x
    if isinstance(x, dict):
        return {str(k): jsonable(v, depth + 1) for k, v in x.items()}
    if isinstance(x, (list, tuple, set, frozenset)):
        return [jsonable(v, depth + 1) for v in x]
    return repr(x)


class Ctx:
    def __init__(self, prop, tier, seed, shard, nshards):
        self.prop = prop
        self.tier = tier
        self.seed = seed
        self.shard = shard
        self.nshards = nshards
        self.rng = random.Random(seed * 100003 + shard * 7919 + 17)
        self.evaluations = 0
        self.nt = set()            # hashes of distinct non-trivial descriptors
        self.counters = {}
        self.samples = []
        self.candidates = []       # kept witnesses
        self.cand_counts = {}      # bucket -> count
        self.kf_seen = {}          # kf id -> count
        self._group_counts = {}
        self.notes = []
        self.blocks = {}           # exhaustive blocks: name -> size
        self.inconclusive = []
        self.data = {}             # free-form, merged by check's offline()

    # -- reporting ---------------------------------------------------------
    def case(self, nt_key=None, n=1):
        """One execution observed by the deciding monitor."""
        self.evaluations += n
        if nt_key is not None:
            self.nt.add(_h(nt_key))

    def event(self, name, n=1):
        self.counters[name] = self.counters.get(name, 0) + n

    def sample(self, obj, force=False):
        if len(self.samples) < MAX_SAMPLES or force:
            self.samples.append(jsonable(obj))

    def want_sample(self):
        return len(self.samples) < MAX_SAMPLES

    def block(self, name, size):
        self.blocks[name] = self.blocks.get(name, 0) + size

    def note(self, text):
        if len(self.notes) < 50 and text not in self.notes:
            self.notes.append(text)

    def fail(self, what, witness, kf=None, monitor=None, group=None):
        """A monitor fired.  kf = id of the known-finding MECHANISM the check's
        own classifier attributes this to (feature present AND signature
        reproduced), or None.  Whether that id is actually listed is decided by
        the supervisor against known_findings.txt."""
        bucket = kf or 'violation'
        self.cand_counts[bucket] = self.cand_counts.get(bucket, 0) + 1
        if kf:
            self.kf_seen[kf] = self.kf_seen.get(kf, 0) + 1
        group = group or what[:28]
        gk = (bucket, group)
        self._group_counts[gk] = self._group_counts.get(gk, 0) + 1
        # the cap on kept witnesses must never crowd out a real violation by
        # witnesses of known findings: those are capped separately
        kept_same_kind = sum(1 for c in self.candidates
                             if bool(c['kf']) == bool(kf))
        if (self._group_counts[gk] <= MAX_PER_GROUP
                and kept_same_kind < MAX_CANDIDATES_KEPT):
            self.candidates.append({
                'bucket': bucket, 'kf': kf, 'what': what, 'group': group,
                'monitor': monitor, 'witness': jsonable(witness),
                'shard': self.shard, 'seed': self.seed,
            })

    def inconclusive_because(self, reason):
        if reason not in self.inconclusive:
            self.inconclusive.append(reason)

    def summary(self):
        return {
            'evaluations': self.evaluations, 'nt': sorted(self.nt),
            'counters': self.counters, 'samples': self.samples,
            'candidates': self.candidates, 'cand_counts': self.cand_counts,
            'kf_seen': self.kf_seen, 'notes': self.notes,
            'blocks': self.blocks, 'inconclusive': self.inconclusive,
            'data': jsonable(self.data),
        }


# ---------------------------------------------------------------------------
# shard side

def run_shard(mod, tier, seed, shard, nshards, out_path, mem_gb):
    if mem_gb:
        lim = int(mem_gb * (1 << 30))
        try:
            resource.setrlimit(resource.RLIMIT_AS, (lim, lim))
        except Exception:
            pass
    ctx = Ctx(mod.PROPERTY, tier, seed, shard, nshards)
    status = 'ok'
    err = None
    t0 = time.time()
    cov = None
    try:
        bootstrap.import_subject()
        from . import cover
        cov = cover.Coverage(bootstrap.repo_root())
        cov.start()
        mod.run(ctx)
    except MemoryError:
        status = 'error'
        err = 'MemoryError in harness (address-space limit)'
    except BaseException:
        status = 'error'
        err = traceback.format_exc()[-4000:]
    finally:
        if cov is not None:
            cov.stop()
    s = ctx.summary()
    s['status'] = status
    s['error'] = err
    s['wall_s'] = time.time() - t0
    s['coverage'] = cov.result() if cov is not None else {}
    tmp = out_path + '.tmp'
    with open(tmp, 'w') as fp:
        json.dump(s, fp)
    os.replace(tmp, out_path)


# ---------------------------------------------------------------------------
# supervisor side

def run_all_shards(prop, mod, tier, seed, outdir, jobs=16, timeout=None,
                   mem_gb=3):
    n = mod.shards(tier)
    os.makedirs(outdir, exist_ok=True)
    for f in os.listdir(outdir):
        if f.startswith('shard_'):
            os.remove(os.path.join(outdir, f))
    env = bootstrap.child_env(seed)
    if timeout is None:
        timeout = getattr(mod, 'TIMEOUT', {}).get(tier, 900 if tier == 'quick'
                                                  else 3600)
    pending = list(range(n))
    running = {}
    results = {}
    t_start = time.time()
    vcheck = os.path.join(bootstrap.VERIF, 'vcheck.py')
    while pending or running:
        while pending and len(running) < jobs:
            i = pending.pop(0)
            out = os.path.join(outdir, f'shard_{i}.json')
            log = open(os.path.join(outdir, f'shard_{i}.log'), 'w')
            p = subprocess.Popen(
                [bootstrap.PY, '-B', '-X', 'faulthandler', vcheck, prop,
                 '--tier', tier, '--shard', f'{i}/{n}', '--out', out,
                 '--mem-gb', str(mem_gb)],
                env=env, stdout=log, stderr=subprocess.STDOUT,
                cwd=bootstrap.VERIF)
            running[i] = (p, out, log, time.time())
        time.sleep(0.05)
        for i, (p, out, log, t0) in list(running.items()):
            rc = p.poll()
            if rc is None:
                if time.time() - t0 > timeout:
                    p.kill()
                    p.wait()
                    log.close()
                    results[i] = {'status': 'timeout', 'error':
                                  f'watchdog {timeout}s'}
                    del running[i]
                continue
            log.close()
            del running[i]
            if os.path.exists(out):
                try:
                    with open(out) as fp:
                        results[i] = json.load(fp)
                except Exception as e:
                    results[i] = {'status': 'died',
                                  'error': f'unreadable summary: {e}'}
            else:
                tail = ''
                try:
                    with open(os.path.join(outdir, f'shard_{i}.log')) as fp:
                        tail = fp.read()[-1500:]
                except Exception:
                    pass
                results[i] = {'status': 'died',
                              'error': f'exit {rc} without summary: {tail}'}
    return [results[i] for i in range(n)], time.time() - t_start


def merge(summaries):
    m = {
        'evaluations': 0, 'nt': set(), 'counters': {}, 'samples': [],
        'candidates': [], 'cand_counts': {}, 'kf_seen': {}, 'notes': [],
        'blocks': {}, 'inconclusive': [], 'data': [], 'coverage': {},
        'shard_status': [],
    }
    for i, s in enumerate(summaries):
        st = s.get('status', 'died')
        m['shard_status'].append(st)
        if st != 'ok':
            m['inconclusive'].append(
                f'shard {i} {st}: {(s.get("error") or "")[-600:]}')
        m['evaluations'] += s.get('evaluations', 0)
        m['nt'].update(s.get('nt', []))
        for k, v in s.get('counters', {}).items():
            m['counters'][k] = m['counters'].get(k, 0) + v
        for k, v in s.get('cand_counts', {}).items():
            m['cand_counts'][k] = m['cand_counts'].get(k, 0) + v
        for k, v in s.get('kf_seen', {}).items():
            m['kf_seen'][k] = m['kf_seen'].get(k, 0) + v
        for k, v in s.get('blocks', {}).items():
            m['blocks'][k] = m['blocks'].get(k, 0) + v
        m['candidates'].extend(s.get('candidates', []))
        m['notes'].extend(x for x in s.get('notes', []) if x not in m['notes'])
        m['inconclusive'].extend(
            x for x in s.get('inconclusive', []) if x not in m['inconclusive'])
        m['data'].append(s.get('data', {}))
        for f, fn in s.get('coverage', {}).items():
            d = m['coverage'].setdefault(f, {})
            for name, lines in fn.items():
                d[name] = max(d.get(name, 0), lines)
    # samples: round-robin over shards so that the evidence shows variety
    pools = [list(s.get('samples', [])) for s in summaries]
    while any(pools) and len(m['samples']) < 10:
        for p in pools:
            if p and len(m['samples']) < 10:
                m['samples'].append(p.pop(0))
    return m
