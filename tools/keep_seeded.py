#!/venv/bin/python
"""Confirm seeded changes (tests still green, demo fails with / passes without
the change), run the property's check against each (quick, then thorough if
quick misses it) and keep them under /verif/seeded/<id>/.
usage: tools/keep_seeded.py <dir> [<dir> ...]"""
import json
import os
import shutil
import subprocess
import sys

HERE = os.path.dirname(os.path.dirname(os.path.abspath(__file__)))
for d in sys.argv[1:]:
    d = os.path.abspath(d)
    name = os.path.basename(d)
    r = subprocess.run(['/venv/bin/python', '-B',
                        os.path.join(HERE, 'tools', 'try_seeded.py'), d],
                       capture_output=True, text=True)
    try:
        res = json.loads(r.stdout.strip().splitlines()[-1])
    except Exception:
        print(name, 'runner failed', r.stdout[-300:], r.stderr[-300:])
        continue
    tier = 'quick'
    if res.get('applies') and not res.get('caught'):
        r2 = subprocess.run(['/venv/bin/python', '-B',
                             os.path.join(HERE, 'tools', 'try_seeded.py'), d,
                             '--tier', 'thorough', '--skip-tests'],
                            capture_output=True, text=True)
        try:
            res2 = json.loads(r2.stdout.strip().splitlines()[-1])
            if res2.get('caught'):
                res['caught'] = True
                res['check_tail'] = res2.get('check_tail')
                res['check_wall'] = res2.get('check_wall')
                tier = 'thorough'
        except Exception:
            pass
    ok = (res.get('applies') and res.get('tests_ok')
          and res.get('demo_unchanged_rc') == 0
          and res.get('demo_changed_rc') not in (0, None))
    meta = json.load(open(os.path.join(d, 'meta.json')))
    meta['confirmed_by_verifier'] = {
        'patch_applies_to_repo_head': res.get('applies'),
        'pinned_suite_with_patch': res.get('tests'),
        'demo_exit_unchanged': res.get('demo_unchanged_rc'),
        'demo_exit_with_patch': res.get('demo_changed_rc'),
        'ran': 'tools/try_seeded.py (scratch worktree of /repo HEAD, patch '
               'applied, tools/baseline.py, demo.py with and without the '
               'patch, vcheck.py <property> with VERIF_REPO_ROOT=<worktree>)',
    }
    meta['check_result'] = {
        'caught': bool(res.get('caught')),
        'tier': tier if res.get('caught') else None,
        'wall_s': res.get('check_wall'),
        'tail': res.get('check_tail'),
    }
    print(name, 'confirmed' if ok else 'NOT-CONFIRMED',
          'CAUGHT(%s)' % tier if res.get('caught') else 'MISSED')
    if ok:
        out = os.path.join(HERE, 'seeded', name)
        os.makedirs(out, exist_ok=True)
        shutil.copy(os.path.join(d, 'patch.diff'), out)
        shutil.copy(os.path.join(d, 'demo.py'), out)
        with open(os.path.join(out, 'meta.json'), 'w') as fp:
            json.dump(meta, fp, indent=1)
