#!/bin/bash
# Self-test for "never raise an alarm on code where the property holds": a
# scratch worktree of /repo HEAD in which internal names are renamed
# consistently (a behaviour-preserving refactoring) must pass every check.
# usage: tools/refactor_selftest.sh [tier]   (default quick)
tier=${1:-quick}
wt=/tmp/wt-refactor-$$
git -C /repo worktree add --detach $wt HEAD >/dev/null 2>&1 || exit 3
trap 'git -C /repo worktree remove --force $wt >/dev/null 2>&1' EXIT
names="_validate:_coerce_value _safe_validate:_coerce_or_none eval_cell:value_of_cell \
_round:_decimal_round number_to_datetime:serial_to_datetime datetime_to_number:datetime_to_serial \
_sort_key:_order_key _evaluating:_in_progress _cache:_memo full_address:qualified_address \
set_sheet:use_sheet build_ranges:collect_ranges build_defined_names:collect_names \
link_cells_to_defined_names:attach_names _get_context:_new_context handle_number:digits_of \
handle_places:width_of convert_bases:rebase parse_criteria:compile_criterion _xnpv:_npv_at_dates \
_xirr:_rate_at_dates shunting_yard:to_postfix build_ast:postfix_to_tree getTokens:tokenize"
for pair in $names; do
  old=${pair%%:*}; new=${pair##*:}
  grep -rlw --include=*.py "$old" $wt/xlcalculator | xargs -r sed -i "s/\b$old\b/$new/g"
done
PYTHONPATH=$wt /venv/bin/python -c "import xlcalculator, sys; assert xlcalculator.__file__.startswith('$wt'), xlcalculator.__file__" || exit 3
cd /verif
rc_all=0
for c in C01 C02 C03 C04 C05 C06 C07 C08 C09 C10 C11 C12 C13 C14 C15 C16 C17 C18 C19 C20; do
  out=$(VERIF_REPO_ROOT=$wt /venv/bin/python -B vcheck.py $c --tier $tier 2>&1); rc=$?
  echo "$c rc=$rc :: $(echo "$out" | grep -v '^KNOWN-FINDING\|^note:' | tail -1 | cut -c1-200)"
  [ $rc -ne 0 ] && rc_all=1
done
exit $rc_all
