#!/bin/bash
# the repository's pinned suite with the result-domain contract armed
cd /repo && PYTHONPATH=/repo:/verif:/verif/.deps VERIF_CONTRACT_REPORT=/verif/out/contracts_report.json \
  /venv/bin/python -m pytest -q -p no:cacheprovider -p vlib.pytest_monitors 2>&1 | tail -6
