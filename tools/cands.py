#!/venv/bin/python
"""list candidate violations of the last run of a check: tools/cands.py C01 [bucket] [max]"""
import glob, json, sys
prop = sys.argv[1]
bucket = sys.argv[2] if len(sys.argv) > 2 else 'violation'
mx = int(sys.argv[3]) if len(sys.argv) > 3 else 40
n = 0
counts = {}
for f in sorted(glob.glob(f'/verif/out/{prop}/shard_*.json')):
    s = json.load(open(f))
    for k, v in s['cand_counts'].items():
        counts[k] = counts.get(k, 0) + v
    for c in s['candidates']:
        if c['bucket'] == bucket and n < mx:
            print('-', c['what'][:400]); n += 1
    if s.get('status') != 'ok': print('SHARD', f, s.get('status'), (s.get('error') or '')[-1500:])
print(counts)
