#!/venv/bin/python
"""Regenerate MANIFEST.json from the check modules (keeps it valid at all
times): every property with a checks/cNN.py module is claimed, every other
one is listed under not_applicable with the reason given in NOT_BUILT."""
import importlib
import json
import os
import subprocess
import sys

HERE = os.path.dirname(os.path.dirname(os.path.abspath(__file__)))
sys.path.insert(0, HERE)

props = [json.loads(l) for l in open(os.path.join(HERE, 'properties.jsonl'))]
checks, na = [], []
for p in props:
    pid = p['id']
    path = os.path.join(HERE, 'checks', pid.lower() + '.py')
    if not os.path.exists(path):
        na.append({'property_id': pid, 'reason':
                   'runtime monitor for this property not built yet (the '
                   'technique applies; see DESIGN.md section 5)'})
        continue
    mod = importlib.import_module('checks.' + pid.lower())
    checks.append({
        'property_id': pid,
        'quick_cmd': f'/venv/bin/python -B vcheck.py {pid} --tier quick',
        'thorough_cmd': f'/venv/bin/python -B vcheck.py {pid} --tier thorough',
        'evidence_file': f'/verif/evidence/{pid}.json',
        'replay_cmd_template':
            f'/venv/bin/python -B vcheck.py {pid} --replay {{path}}',
        'engine': 'vcheck',
        'level_claimed': {
            'category': getattr(mod, 'LEVEL', 'exploration'),
            'text': getattr(mod, 'LEVEL_TEXT', (
                'runtime monitoring of the real code: ' + mod.RULE
                + '.  Deterministic blocks added after the seeded rounds '
                '(DESIGN.md 10.4-10.15) are part of both tiers; each has a '
                'counter with a floor in the evidence file (' + ', '.join(
                    sorted(getattr(mod, 'FLOORS', {}))[:40]) + ')')),
            'design_ref': f'DESIGN.md section 5, {pid}',
        },
        'level_note': getattr(mod, 'LEVEL_NOTE', '; '.join(
            getattr(mod, 'ASSUMPTIONS', [])) or 'reference model written '
            'from the property statement; CPython, numpy, pandas trusted'),
        'technique': getattr(mod, 'TECHNIQUE', (
            'runtime monitoring: recorded executions of the real functions '
            'checked against an executable reference model')),
    })

def commits():
    try:
        out = subprocess.run(
            ['git', '-C', '/repo', 'log', '--format=%h %s'],
            capture_output=True, text=True).stdout.splitlines()
    except Exception:
        return []
    return [l.split()[0] for l in out if l.split(' ', 1)[1].startswith(
        'verif-hook:')]

manifest = {
    'version': 1,
    'setup_cmd': '/venv/bin/python -B tools/setup.py',
    'hooks': {
        'guard': 'XLCALCULATOR_VERIF',
        'enable': 'no source hooks are needed: every observation point is a '
                  'module/class attribute that the harness wraps at import '
                  '(checks export XLCALCULATOR_VERIF=1 to their workers for '
                  'the interface only)',
        'baseline_off_cmd': '/venv/bin/python -B tools/baseline.py',
        'source_commits': commits(),
        'add_only': True,
    },
    'engines': [{
        'name': 'vcheck', 'path': '/verif/vcheck.py',
        'serves_properties': [c['property_id'] for c in checks],
        'kind_free_text': 'runtime-monitoring supervisor: sharded workloads '
        'against the working tree of /repo, monitors (icontract contracts, '
        'wrappers at the public boundary, step budgets, spies, object '
        'accounting) and offline history checkers against executable '
        'reference models; three-valued verdict',
    }],
    'checks': checks,
    'not_applicable': na,
    'notes': 'All checks import /repo\'s working tree (or VERIF_REPO_ROOT) '
             'in fresh subprocesses; exit 0 held / 1 VIOLATION / 2 '
             'INCONCLUSIVE. Known findings: known_findings.txt.',
}
with open(os.path.join(HERE, 'MANIFEST.json'), 'w') as fp:
    json.dump(manifest, fp, indent=1)
print(f'{len(checks)} checks claimed, {len(na)} not yet')
