#!/bin/bash
# usage: tools/sweep.sh <tier> <seed> [checks...]  -> one line per check
tier=$1; seed=$2; shift; shift
checks=${@:-C01 C02 C03 C04 C05 C06 C07 C08 C09 C10 C11 C12 C13 C14 C15 C16 C17 C18 C19 C20}
cd /verif
for c in $checks; do
  s=$(date +%s)
  out=$(VERIF_SEED=$seed /venv/bin/python -B vcheck.py $c --tier $tier 2>&1)
  rc=$?
  e=$(date +%s)
  echo "$c tier=$tier seed=$seed rc=$rc wall=$((e-s))s :: $(echo "$out" | grep -v '^KNOWN-FINDING\|^note:' | tail -2 | tr '\n' ' ' | cut -c1-300)"
done
