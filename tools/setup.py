#!/venv/bin/python
"""MANIFEST.setup_cmd: install the monitor dependencies (icontract, mpmath)
from the offline wheelhouse into ./.deps and self-test the import path."""
import os
import sys
HERE = os.path.dirname(os.path.dirname(os.path.abspath(__file__)))
sys.path.insert(0, HERE)
from vlib import bootstrap  # noqa
ok = bootstrap.ensure_deps(quiet=False)
sys.path.insert(0, bootstrap.DEPS)
import icontract, mpmath  # noqa
os.makedirs(os.path.join(HERE, 'out'), exist_ok=True)
os.makedirs(os.path.join(HERE, 'evidence'), exist_ok=True)
print('setup ok' if ok else 'setup FAILED')
sys.exit(0 if ok else 1)
