#!/bin/bash
# re-run every kept seeded change against the current checks (quick tier);
# four groups of properties in parallel (seeds of one property run one after
# the other: a check's scratch files are per check and shard)
# usage: tools/rerun_seeded.sh [C01 C02 ...]
cd /verif
run_group() {
  for p in "$@"; do
    for d in seeded/$p-*/; do
      /venv/bin/python tools/try_seeded.py $d --skip-tests | /venv/bin/python -c "
import sys, json
for l in sys.stdin:
    try: r = json.loads(l)
    except Exception: continue
    print(r['seeded'], 'applies' if r.get('applies') else 'NOAPPLY', 'OBSOLETE' if r.get('obsolete') else ('CAUGHT' if r.get('caught') else 'MISSED rc=%s' % r.get('check_rc')), r.get('check_wall'))
"
    done
  done
}
if [ $# -gt 0 ]; then run_group "$@"; exit; fi
run_group C01 C02 C03 C04 C05 &
run_group C06 C07 C08 C09 C10 &
run_group C11 C12 C13 C14 C15 &
run_group C16 C17 C18 C19 C20 &
wait
