#!/bin/bash
# re-run every kept seeded change against the current checks (quick tier)
cd /verif
for d in seeded/*/; do
  /venv/bin/python tools/try_seeded.py $d --skip-tests | /venv/bin/python -c "
import sys, json
for l in sys.stdin:
    try: r = json.loads(l)
    except Exception: continue
    print(r['seeded'], 'applies' if r.get('applies') else 'NOAPPLY', 'CAUGHT' if r.get('caught') else 'MISSED rc=%s' % r.get('check_rc'), r.get('check_wall'))
"
done
