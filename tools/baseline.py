#!/venv/bin/python
"""Run the repository's pinned suite with the hook guard OFF and compare with
/root/.vp/BASELINE.json (every stable_pass test must still pass).
usage: tools/baseline.py [repo_root]"""
import json
import os
import subprocess
import sys
import xml.etree.ElementTree as ET

HERE = os.path.dirname(os.path.dirname(os.path.abspath(__file__)))
root = sys.argv[1] if len(sys.argv) > 1 else '/repo'
out = os.path.join(HERE, 'out')
os.makedirs(out, exist_ok=True)
xml = os.path.join(out, f'baseline-{os.getpid()}.xml')
env = dict(os.environ)
env.pop('XLCALCULATOR_VERIF', None)
env['PYTHONDONTWRITEBYTECODE'] = '1'
if root != '/repo':
    env['PYTHONPATH'] = root
r = subprocess.run(
    ['/venv/bin/python', '-m', 'pytest', '-q', '-p', 'no:cacheprovider',
     '--timeout=900', '--continue-on-collection-errors', '-x' if False else
     '-q', f'--junitxml={xml}'], cwd=root, env=env, capture_output=True,
    text=True)
passed, failed = set(), set()
for tc in ET.parse(xml).getroot().iter('testcase'):
    tid = f"{tc.get('classname')}::{tc.get('name')}"
    if any(ch.tag in ('failure', 'error') for ch in tc):
        failed.add(tid)
    elif any(ch.tag == 'skipped' for ch in tc):
        pass
    else:
        passed.add(tid)
os.remove(xml)
base = json.load(open('/root/.vp/BASELINE.json'))
stable = set(base['stable_pass'])
missing = sorted(stable - passed)
print(f'passed={len(passed)} failed={len(failed)} '
      f'stable_pass={len(stable)} stable_missing={len(missing)}')
for m in missing[:20]:
    print('  NOT PASSING:', m)
newfail = sorted(failed & stable)
sys.exit(1 if missing else 0)
