#!/venv/bin/python
"""Confirm a seeded change and run the property's check against it.
usage: tools/try_seeded.py <seeded dir> [--tier quick|thorough] [--skip-tests]
Works in a scratch worktree of /repo HEAD (removed afterwards); /repo itself is
not touched.  Prints one JSON line with what was observed."""
import json
import os
import subprocess
import sys
import time

HERE = os.path.dirname(os.path.dirname(os.path.abspath(__file__)))
d = os.path.abspath(sys.argv[1])
tier = 'quick'
if '--tier' in sys.argv:
    tier = sys.argv[sys.argv.index('--tier') + 1]
skip_tests = '--skip-tests' in sys.argv
meta = json.load(open(os.path.join(d, 'meta.json')))
prop = meta['property']
if meta.get('obsolete'):
    print(json.dumps({'seeded': os.path.basename(d), 'property': prop,
                      'obsolete': True, 'applies': True, 'caught': None}))
    sys.exit(0)
name = os.path.basename(d)
wt = f'/tmp/wt-verify-{name}-{os.getpid()}'


def sh(*a, **kw):
    return subprocess.run(a, capture_output=True, text=True, **kw)


res = {'seeded': name, 'property': prop, 'tier': tier}
sh('git', '-C', '/repo', 'worktree', 'add', '--detach', wt, 'HEAD')
try:
    patch = os.path.join(d, 'patch.diff')
    r = sh('git', '-C', wt, 'apply', patch)
    if r.returncode != 0:
        r = sh('git', '-C', wt, 'apply', '--3way', patch)
    res['applies'] = r.returncode == 0
    if r.returncode != 0:
        res['apply_error'] = r.stderr[-300:]
        print(json.dumps(res))
        sys.exit(3)
    demo = os.path.join(d, 'demo.py')
    envc = dict(os.environ, PYTHONPATH='/repo', PYTHONDONTWRITEBYTECODE='1')
    envp = dict(os.environ, PYTHONPATH=wt, PYTHONDONTWRITEBYTECODE='1')
    rc = sh('/venv/bin/python', '-B', demo, env=envc, cwd=d, timeout=600)
    rp = sh('/venv/bin/python', '-B', demo, env=envp, cwd=d, timeout=600)
    res['demo_unchanged_rc'] = rc.returncode
    res['demo_changed_rc'] = rp.returncode
    if not skip_tests:
        rt = sh('/venv/bin/python', '-B', os.path.join(HERE, 'tools',
                                                      'baseline.py'), wt)
        res['tests'] = rt.stdout.strip().splitlines()[0] if rt.stdout else \
            rt.stderr[-200:]
        res['tests_ok'] = rt.returncode == 0
    t0 = time.time()
    env = dict(os.environ, VERIF_REPO_ROOT=wt)
    rv = sh('/venv/bin/python', '-B', os.path.join(HERE, 'vcheck.py'), prop,
            '--tier', tier, env=env, cwd=HERE, timeout=7200)
    res['check_rc'] = rv.returncode
    res['check_wall'] = round(time.time() - t0, 1)
    lines = rv.stdout.strip().splitlines()
    res['check_tail'] = [l[:300] for l in lines[-4:]]
    res['caught'] = rv.returncode == 1 and any(
        l.startswith('VIOLATION') for l in lines)
finally:
    sh('git', '-C', '/repo', 'worktree', 'remove', '--force', wt)
print(json.dumps(res))
