"""C01 — operator precedence and associativity.

Events: Evaluator.evaluate of a cell holding the generated formula (decides),
operator-table recorder (which operator functions were applied, how often).
Oracle: reference evaluator over the generator's own tree; flat token
sequences are bracketed by the generator's own precedence climbing.  All
renderings of one tree must give one value.
"""
import itertools

from vlib import monitors, ref, subject

PROPERTY = 'C01'
RULE = ('formulas over the 12 binary operators + unary minus, operands = cell '
        'references (2 assignments of dyadic numbers) and literals (plain, '
        'decimal, percent, scientific); exhaustive: every ordered operator '
        'pair a.b.c x unary minus at each operand x renderings (minimal / '
        'fully parenthesised / doubled parentheses / blanks), every ordered '
        'triple flat; sampled trees to depth 5 (7 thorough).  non-trivial = '
        'the flat token sequence has a different reference value under some '
        'other bracketing (right-assoc, reversed or flat precedence), i.e. '
        'the case can tell trees apart; distinct by (operators in order, '
        'unary positions, rendering style, assignment).  A sample of the '
        'formulas is also evaluated on ONE model whose inputs are re-assigned '
        'through set_cell_value between evaluations')
ASSUMPTIONS = [
    'reference evaluator written from the statements of C01/C07/C08/C09 '
    '(vlib/ref.py); never imports xlcalculator',
    'skipped as not decided by C01: text form of whole floats / booleans under '
    '& is judged in C08/C17 (boolean text form is attributed to its known '
    'finding), 0^0, 0^negative, negative^fraction, overflow',
]
FLOORS = {'evaluate_outcomes': 2000, 'pairs_seen': 144,
          'reassigned_evaluations': 300, 'chained_evaluations': 300, 'far_reference_cases': 60, 'long_chain_cases': 100,
          'double_sign_and_big_float_cases': 80, 'two_sheet_evaluations': 300,
          'decimal_residue_cases': 100, 'postfix_percent_cases': 30, 'big_power_cases': 12, 'error_operand_cases': 300,
          'rendering_groups': 500}
ANCHOR_FUNCS = {
    'xlcalculator/parser.py': ['FormulaParser.shunting_yard',
                               'FormulaParser.build_ast'],
    'xlcalculator/tokenizer.py': ['ExcelParser.getTokens'],
    'xlcalculator/ast_nodes.py': ['OperatorNode.eval'],
}
TIMEOUT = {'quick': 600, 'thorough': 3000}

OPS = ['^', '*', '/', '+', '-', '&', '=', '<>', '<', '>', '<=', '>=']
POOL = [-3, -2, -1.5, -1, -0.5, 0, 0.5, 1, 1.5, 2, 3, 4]
CELLS = ['A1', 'B1', 'C1', 'D1', 'E1', 'F1']
LITS = [(0, '0'), (1, '1'), (2, '2'), (3, '3'), (4, '4'), (10, '10'),
        (0.5, '0.5'), (1.25, '1.25'), (2.5, '2.5'),
        (50 / 100, '50%'), (25 / 100, '25%'), (200 / 100, '200%'),
        (150 / 100, '150%'),
        (1.5E+3, '1.5E+3'), (2.5E-1, '2.5E-1'), (1E+2, '1E+2'),
        (5E-1, '5E-1'),
        # scientific notation as typed: exponent without a sign, lower case
        (1E3, '1E3'), (1.5E2, '1.5E2'), (4.0, '4E0'), (2E1, '2e1'),
        (2.5E-1, '2.5e-1')]


def shards(tier):
    return 16


def cellref(i):
    return ('ref', None, i + 1, 1, False, False)


# -- generator's own precedence climbing over a flat token list ---------------
# tokens: operands are ASTs, '-u' marks a unary minus, strings are binary ops

def climb(tokens, prec=ref.PREC, right=False, unary_tight=True):
    pos = [0]

    def atom():
        t = tokens[pos[0]]
        if t == '-u':
            pos[0] += 1
            if unary_tight:
                return ('neg', atom())
            return ('neg', expr(6))
        pos[0] += 1
        return t

    def expr(minp):
        left = atom()
        while pos[0] < len(tokens):
            op = tokens[pos[0]]
            p = prec[op]
            if p < minp:
                break
            pos[0] += 1
            rhs = expr(p if right else p + 1)
            left = ('bin', op, left, rhs)
        return left
    return expr(0)


ALT_TABLES = [
    dict(prec=ref.PREC, right=True),
    dict(prec={k: 6 - v for k, v in ref.PREC.items()}, right=False),
    dict(prec={k: 1 for k in ref.PREC}, right=False),
    dict(prec={k: 1 for k in ref.PREC}, right=True),
    dict(prec=ref.PREC, right=False, unary_tight=False),
]


def flat_tokens(ast):
    """minimal rendering as tokens; parenthesised sub-trees stay atoms"""
    k = ast[0]
    if k == 'bin':
        p = ref.PREC[ast[1]]
        l, r = ast[2], ast[3]
        lt = flat_tokens(l) if not (l[0] == 'bin' and ref.PREC[l[1]] < p) \
            else [l]
        rt = flat_tokens(r) if not (r[0] == 'bin' and ref.PREC[r[1]] <= p) \
            else [r]
        return lt + [ast[1]] + rt
    if k == 'neg':
        x = ast[1]
        return ['-u'] + ([x] if x[0] == 'bin' else flat_tokens(x))
    return [ast]


def values_equal(a, b):
    if a[0] == 'num' and b[0] == 'num':
        x, y = a[1], b[1]
        return x == y or abs(x - y) <= 1e-12 * max(abs(x), abs(y))
    return a == b


class Quirk:
    """re-run of the reference with exactly one known defect switched on"""
    def __init__(self, name):
        self.name = name

    def __enter__(self):
        ref.QUIRKS.add(self.name)

    def __exit__(self, *a):
        ref.QUIRKS.discard(self.name)


def ref_value(wb, ast):
    try:
        return ('value', ref.to_norm(wb.eval(ast, 'Sheet1')))
    except ref.Undecided as e:
        return ('undecided', str(e))
    except (OverflowError, ZeroDivisionError) as e:
        return ('undecided', repr(e))


class Runner:
    def __init__(self, ctx):
        self.ctx = ctx
        self.queue = []
        self.pairs_seen = set()

    def add(self, ast, assignment, kind, styles):
        self.queue.append((ast, assignment, kind, styles))
        if len(self.queue) >= 150:
            self.flush()

    def flush(self):
        q, self.queue = self.queue, []
        if not q:
            return
        ctx = self.ctx
        rng = ctx.rng
        # group by assignment so that one model serves many formulas
        by_asg = {}
        for item in q:
            by_asg.setdefault(item[1], []).append(item)
        for asg, items in by_asg.items():
            inputs = {c: v for c, v in zip(CELLS, asg)}
            wb = ref.Workbook({('Sheet1', i + 1, 1): v
                               for i, v in enumerate(asg)})
            texts, meta = [], []
            for ast, _, kind, styles in items:
                for st in styles:
                    base, blanks = st
                    sp = (lambda: rng.choice(['', ' ', ' ', '  '])) \
                        if blanks else None
                    texts.append('=' + ref.render(ast, base, sp))
                    meta.append((ast, kind, st))
            outs = subject.eval_batch(texts, inputs)
            groups = {}
            for (ast, kind, st), text, got in zip(meta, texts, outs):
                groups.setdefault(id(ast), []).append((ast, kind, st, text,
                                                       got))
            for grp in groups.values():
                self.judge(wb, asg, grp)
        self.reassigned(q, list(by_asg))
        self.two_sheets(q, list(by_asg))
        self.chained(q, list(by_asg))

    def two_sheets(self, q, asgs):
        """the same formula TEXTS on two sheets of one workbook, each sheet
        with its own cell values (an unqualified reference means the sheet of
        the cell that holds the formula)"""
        ctx = self.ctx
        rng = ctx.rng
        items = [it for it in q if _has_ref(it[0])]
        if len(items) < 2 or len(asgs) < 2:
            return
        items = rng.sample(items, min(len(items), 25))
        a1, a2 = rng.sample(asgs, 2)
        texts = ['=' + ref.render(it[0], 'minimal') for it in items]
        cells = {}
        for sheet, asg in (('Sheet1', a1), ('Data', a2)):
            for c, v in zip(CELLS, asg):
                cells[f'{sheet}!{c}'] = v
            for i, t in enumerate(texts):
                cells[f'{sheet}!ZZ{i + 1}'] = t
        try:
            from xlcalculator import Evaluator
            ev = Evaluator(subject.compile_dict(cells))
        except Exception:  # noqa
            return
        order = [(sh_, i) for sh_ in ('Sheet1', 'Data')
                 for i in range(len(texts))]
        rng.shuffle(order)
        wbs = {}
        for sheet, asg in (('Sheet1', a1), ('Data', a2)):
            wbs[sheet] = (asg, ref.Workbook({('Sheet1', i + 1, 1): v
                                             for i, v in enumerate(asg)}))
        for sheet, i in order:
            asg, wb = wbs[sheet]
            got = subject.outcome_of(
                lambda: ev.evaluate(f'{sheet}!ZZ{i + 1}'))
            expect = ref_value(wb, items[i][0])
            if expect[0] == 'undecided':
                continue
            ctx.event('two_sheet_evaluations')
            if got[0] == 'value' and values_equal(got[1], expect[1]):
                continue
            kf = self.attribute(wb, items[i][0], got)
            ctx.fail(f'{texts[i]} on sheet {sheet} (the same text stands on '
                     f'both sheets; {sheet} holds {dict(zip(CELLS, asg))}): '
                     f'observed {got}, reference {expect[1]}',
                     {'formula': texts[i], 'sheet': sheet,
                      'cells': {f'{s_}!{c}': v for s_, (a_, _) in wbs.items()
                                for c, v in zip(CELLS, a_)},
                      'observed': got, 'reference': expect[1]},
                     kf=kf, monitor='two-sheets-one-text')

    def reassigned(self, q, asgs):
        """the same compiled formulas under re-assigned inputs: one model, one
        Evaluator, inputs changed through set_cell_value between evaluations;
        every evaluation is judged against the reference for the inputs that
        are current at that moment"""
        ctx = self.ctx
        rng = ctx.rng
        items = [it for it in q if _has_ref(it[0])]
        if len(items) < 2 or len(asgs) < 2:
            return
        items = rng.sample(items, min(len(items), 40))
        asgs = rng.sample(asgs, min(len(asgs), 3))
        texts = ['=' + ref.render(it[0], 'minimal') for it in items]
        series = subject.eval_series(
            texts, [dict(zip(CELLS, a)) for a in asgs])
        if series is None:
            return
        for step, (asg, outs) in enumerate(zip(asgs, series)):
            wb = ref.Workbook({('Sheet1', i + 1, 1): v
                               for i, v in enumerate(asg)})
            for it, text, got in zip(items, texts, outs):
                expect = ref_value(wb, it[0])
                if expect[0] == 'undecided':
                    continue
                ctx.event('reassigned_evaluations' if step else
                          'evaluate_outcomes')
                if got[0] == 'value' and values_equal(got[1], expect[1]):
                    continue
                kf = self.attribute(wb, it[0], got)
                ctx.fail(f'{text} after re-assigning the inputs to '
                         f'{dict(zip(CELLS, asg))} (step {step} on one '
                         f'model): observed {got}, reference {expect[1]}',
                         {'formula': text, 'assignments_in_order':
                          [dict(zip(CELLS, a)) for a in asgs[:step + 1]],
                          'observed': got, 'reference': expect[1]},
                         kf=kf, monitor='reassigned-inputs')

    def chained(self, q, asgs):
        """formula cells three levels deep on ONE model (G1 over the inputs,
        H1 over G1 and inputs, I1 over H1 and inputs), every level evaluated
        (top first), then the inputs re-assigned - one setter route per step -
        and every level evaluated again: each answer is judged against the
        reference for the inputs that are current"""
        from xlcalculator import Evaluator
        ctx = self.ctx
        rng = ctx.rng
        arith = [it[0] for it in q if _has_ref(it[0])
                 and _ops_within(it[0], ('+', '-', '*', '/'))]
        tops = [it[0] for it in q if _has_ref(it[0])]
        if len(arith) < 2 or not tops or len(asgs) < 2:
            return
        chains = []
        for n in range(4):
            a, b = rng.choice(arith), rng.choice(arith)
            c = rng.choice(tops)
            col = 7 + 3 * n
            chains.append([(col, a), (col + 1, _subst_first_ref(b, col)),
                           (col + 2, _subst_first_ref(c, col + 1))])
        steps = [rng.choice(asgs) for _ in range(4)]
        cells = {f'Sheet1!{c}': v for c, v in zip(CELLS, steps[0])}
        for ch in chains:
            for col, ast in ch:
                cells[f'Sheet1!{ref.col_letters(col)}1'] = \
                    '=' + ref.render(ast, 'minimal')
        cells['Sheet1!ZY1'] = '=' + '+'.join(CELLS) + '+' + '+'.join(
            f'{ref.col_letters(ch[-1][0])}1' for ch in chains) + \
            '+NOSUCHFUNCTION(1)'
        try:
            model = subject.compile_dict(cells)
            ev = Evaluator(model)
        except Exception:  # noqa: a formula the parser rejects is judged elsewhere
            return
        routes = [lambda a, v: ev.set_cell_value(a, v),
                  lambda a, v: model.set_cell_value(a, v)]
        for step, asg in enumerate(steps):
            if step:
                # a failing evaluation that has read inputs and chain cells
                subject.outcome_of(lambda: ev.evaluate('Sheet1!ZY1'))
                for c, v in zip(CELLS, asg):
                    routes[step % 2](f'Sheet1!{c}', v)
            wb = ref.Workbook({('Sheet1', i + 1, 1): v
                               for i, v in enumerate(asg)})
            for ch in chains:
                for col, ast in ch:
                    wb.cells[('Sheet1', col, 1)] = ('f', ast)
            for ch in chains:
                for col, ast in reversed(ch):
                    addr = f'Sheet1!{ref.col_letters(col)}1'
                    expect = ref_value(wb, ('ref', None, col, 1, False,
                                            False))
                    got = subject.outcome_of(lambda: ev.evaluate(addr))
                    if expect[0] == 'undecided':
                        break       # lower levels are judged, this chain not
                    ctx.event('chained_evaluations')
                    if got[0] == 'value' and values_equal(got[1], expect[1]):
                        continue
                    kf = self.attribute(wb, ast, got)
                    ctx.fail(f'{addr} ={ref.render(ast, "minimal")} (level '
                             f'{col - ch[0][0] + 1} of a chain of formula '
                             f'cells) after {step} re-assignments of the '
                             f'inputs, now {dict(zip(CELLS, asg))}: observed '
                             f'{got}, reference {expect[1]}',
                             {'cells': cells, 'assignments_in_order':
                              [dict(zip(CELLS, a)) for a in steps[:step + 1]],
                              'evaluated': addr, 'observed': got,
                              'reference': expect[1]},
                             kf=kf, monitor='reassigned-inputs',
                             group=f'chained:{min(step, 1)}')
                    break

    def judge(self, wb, asg, grp):
        ctx = self.ctx
        ast, kind = grp[0][0], grp[0][1]
        expect = ref_value(wb, ast)
        if expect[0] == 'undecided':
            ctx.event('skipped_undecided')
            return
        toks = flat_tokens(ast)
        # self-consistency of the reference: climbing the minimal token
        # sequence must give back the tree
        try:
            again = ref_value(wb, climb(toks))
        except Exception as e:  # noqa
            again = ('broken', repr(e))
        if again != expect:
            ctx.inconclusive_because(
                f'reference formulations disagree on {ref.render(ast)}: '
                f'{expect} vs {again}')
            return
        nontrivial = False
        if len(toks) > 1:
            for alt in ALT_TABLES:
                try:
                    v = ref_value(wb, climb(toks, **alt))
                except Exception:  # noqa
                    continue
                if v[0] == 'value' and not values_equal(v[1], expect[1]):
                    nontrivial = True
                    break
        ops = tuple(t for t in toks if isinstance(t, str))
        bin_ops = [t for t in ops if t != '-u']
        for a, b in zip(bin_ops, bin_ops[1:]):
            self.pairs_seen.add((a, b))
        seen_values = set()
        for _, _, st, text, got in grp:
            ctx.event('evaluate_outcomes')
            key = (ops, st, asg if len(ops) <= 4 else None, kind) \
                if nontrivial else None
            ctx.case(key)
            ok = got[0] == 'value' and values_equal(got[1], expect[1])
            if got[0] == 'value':
                seen_values.add(got[1] if got[1][0] != 'num' else
                                ('num', float('%.12g' % got[1][1])))
            if ctx.want_sample() and ctx.rng.random() < 0.01:
                ctx.sample({'formula': text, 'cells': dict(zip(CELLS, asg)),
                            'observed': got, 'reference': expect[1],
                            'distinguishes_bracketings': nontrivial})
            if ok:
                continue
            kf = self.attribute(wb, ast, got)
            ctx.fail(f'{text} with {dict(zip(CELLS, asg))}: observed {got}, '
                     f'reference {expect[1]}',
                     {'formula': text, 'cells': dict(zip(CELLS, asg)),
                      'observed': got, 'reference': expect[1],
                      'reference_tree': ref.render(ast, 'full'),
                      'style': st, 'kind': kind},
                     kf=kf, monitor='value-vs-reference')
        ctx.event('rendering_groups')
        if len(seen_values) > 1:
            # all renderings of one tree must agree with each other
            texts = [(g[3], g[4]) for g in grp]
            if not any(c for c in ctx.candidates
                       if c['witness'].get('formula') in
                       [t for t, _ in texts]):
                ctx.fail(f'renderings of one tree disagree: {texts}',
                         {'renderings': texts,
                          'cells': dict(zip(CELLS, asg))},
                         monitor='rendering-invariance')

    def attribute(self, wb, ast, got):
        """known-finding attribution by quirk-model reproduction"""
        if got[0] != 'value':
            return None
        for quirk, kf in (('bool_text_title', 'KF-C08-01'),
                          ('text_left_str_compare', 'KF-C09-01'),):
            if quirk not in ref_features(wb, ast):
                continue
            with Quirk(quirk):
                v = ref_value(wb, ast)
            if v[0] == 'value' and values_equal(v[1], got[1]):
                return kf
            if v[0] == 'undecided':
                # with that mechanism switched on the evaluation runs into a
                # case the statements do not decide (e.g. FALSE^-3 instead of
                # TRUE^-3): the deviation starts at the listed mechanism
                self.ctx.event('attributed_via_undecided')
                return kf
        # several together: a mechanism may only come into play once another
        # one has changed the course of the evaluation (FALSE&TRUE is only
        # formed after "-30.5"<-4 was answered by spelling), so the touched
        # features are collected with the already touched mechanisms on
        kfs = {'bool_text_title': 'KF-C08-01',
               'text_left_str_compare': 'KF-C09-01'}
        active = []
        while True:
            feats = ref_features(wb, ast, active)
            new = [q for q in kfs if q in feats and q not in active]
            if not new:
                break
            active += new
        if len(active) >= 2:
            ref.QUIRKS.update(active)
            try:
                v = ref_value(wb, ast)
            finally:
                ref.QUIRKS.difference_update(active)
            if v[0] == 'value' and values_equal(v[1], got[1]):
                self.ctx.event('attributed_via_chain')
                return kfs[active[0]]
        return None


def self_attr(runner, wb, ast, got):
    try:
        return runner.attribute(wb, ast, got)
    except Exception:  # noqa
        return None


def _has_ref(ast):
    if ast[0] == 'ref':
        return True
    return any(_has_ref(x) for x in ast[1:] if isinstance(x, tuple))

def _ops_within(ast, allowed):
    if ast[0] == 'bin' and ast[1] not in allowed:
        return False
    return all(_ops_within(x, allowed) for x in ast[1:]
               if isinstance(x, tuple))


def _subst_first_ref(ast, col):
    """the tree with its first cell reference replaced by column col, row 1"""
    done = [False]

    def go(t):
        if not isinstance(t, tuple):
            return t
        if t[0] == 'ref' and not done[0]:
            done[0] = True
            return ('ref', None, col, 1, False, False)
        return tuple(go(x) for x in t)
    return go(ast)



def ref_features(wb, ast, quirks=()):
    """which risky features does the reference evaluation of this tree touch
    (with the given known mechanisms switched on)"""
    ref.FEATURES.clear()
    ref.QUIRKS.update(quirks)
    try:
        wb.eval(ast, 'Sheet1')
    except Exception:  # noqa
        pass
    finally:
        ref.QUIRKS.difference_update(quirks)
    return set(ref.FEATURES)


STYLES_QUICK = [('minimal', False), ('full', False), ('minimal', True)]
STYLES_FULL = [('minimal', False), ('full', False), ('doubled', False),
               ('minimal', True), ('full', True)]


def random_tree(rng, depth, leaves):
    if depth == 0 or rng.random() < 0.25:
        return leaves(rng)
    r = rng.random()
    if r < 0.12:
        return ('neg', random_tree(rng, depth - 1, leaves))
    if r < 0.18:
        return ('par', random_tree(rng, depth - 1, leaves))
    op = rng.choice(OPS)
    return ('bin', op, random_tree(rng, depth - 1, leaves),
            random_tree(rng, depth - 1, leaves))


def run(ctx):
    rng = ctx.rng
    rec = monitors.TableRecorder(ctx, contract=True).install()
    R = Runner(ctx)
    sh, n = ctx.shard, ctx.nshards
    thorough = ctx.tier == 'thorough'
    styles = STYLES_FULL if thorough else STYLES_QUICK
    n_asg = 4 if thorough else 2

    def assignments(k):
        out = []
        for _ in range(k):
            out.append(tuple(rng.choice(POOL) for _ in CELLS))
        return out

    # ---- every ordered pair, unary minus at each operand ------------------
    pairs = list(itertools.product(OPS, OPS))
    for idx, (o1, o2) in enumerate(pairs):
        if idx % n != sh:
            continue
        for upos in (None, 0, 1, 2):
            toks = []
            for i in range(3):
                if upos == i:
                    toks.append('-u')
                toks.append(cellref(i))
                if i < 2:
                    toks.append((o1, o2)[i])
            ast = climb(toks)
            for asg in assignments(n_asg):
                R.add(ast, asg, 'pair', styles)
        # the same pair over literal operands of every kind
        for _ in range(6 if thorough else 2):
            lits = [rng.choice(LITS) for _ in range(3)]
            toks = [('lit', lits[0][0], lits[0][1]), o1,
                    ('lit', lits[1][0], lits[1][1]), o2,
                    ('lit', lits[2][0], lits[2][1])]
            R.add(climb(toks), assignments(1)[0], 'pair-literals', styles)
    ctx.block('ordered operator pairs x unary position', 144 * 4 // n)

    # ---- every ordered triple, flat ----------------------------------------
    triples = list(itertools.product(OPS, OPS, OPS))
    for idx, (o1, o2, o3) in enumerate(triples):
        if idx % n != sh:
            continue
        toks = [cellref(0), o1, cellref(1), o2, cellref(2), o3, cellref(3)]
        ast = climb(toks)
        for asg in assignments(n_asg):
            R.add(ast, asg, 'triple', styles[:2] if not thorough else styles)
    ctx.block('ordered operator triples', 1728 // n)

    # ---- decimal fractions: comparisons of sums and products that leave a
    # binary residue (0.1+0.2 vs 0.3).  Only + - * and the comparisons, which
    # are the same IEEE operations in the reference; the six comparisons of
    # one pair must also be consistent with each other.
    if sh in (0, 1) or thorough:
        decs = [(0.1, '0.1'), (0.2, '0.2'), (0.3, '0.3'), (1.1, '1.1'),
                (2.2, '2.2'), (3.3, '3.3'), (0.7, '0.7'), (2.1, '2.1')]
        import operator as _op
        triples = []
        for a in decs:
            for b in decs:
                for sym, fn in (('+', _op.add), ('-', _op.sub),
                                ('*', _op.mul)):
                    exact = fn(a[0], b[0])
                    near = round(exact, 10)
                    if near != exact and near > 0:
                        # the decimal the user would write differs from the
                        # binary result in the last places
                        triples.append((a, b, sym, (near, repr(near))))
        for _ in range(120 if thorough else 40):
            a, b, sym_, c = rng.choice(triples)
            asg = tuple(v for v, _ in (a, b, c)) + tuple(
                rng.choice(POOL) for _ in CELLS[3:])
            if rng.random() < 0.5:
                la, lb, lc = cellref(0), cellref(1), cellref(2)
            else:
                la, lb, lc = (('lit', v, t) for v, t in (a, b, c))
            left = ('bin', sym_, la, lb)
            right = lc if rng.random() < 0.6 else \
                ('bin', '*', lc, ('lit', 1, '1'))
            for op in ('=', '<>', '<', '>', '<=', '>='):
                ast = ('bin', op, left, right)
                R.add(ast, asg, 'decimal-residue', [('minimal', False)])
            ctx.event('decimal_residue_cases', 6)

    # ---- the percent sign after a reference or a parenthesis (x% is x/100 and
    # binds tighter than every binary operator, ^ included) -------------------
    if sh in (2, 3) or thorough:
        HUNDRED = ('lit', 100, '100')

        def pct(x):
            return ('par', ('bin', '/', x, HUNDRED))
        A, Bc, Cc = cellref(0), cellref(1), cellref(2)
        TWO = ('lit', 2, '2')
        forms = [
            ('=A1%', pct(A)), ('=A1%*B1', ('bin', '*', pct(A), Bc)),
            ('=-A1%', ('neg', pct(A))),
            ('=A1%+B1%', ('bin', '+', pct(A), pct(Bc))),
            ('=(A1+B1)%', pct(('par', ('bin', '+', A, Bc)))),
            ('=2^(A1)%', ('bin', '^', TWO, pct(('par', A)))),
            ('=2^A1%', ('bin', '^', TWO, pct(A))),
            ('=A1%^2', ('bin', '^', pct(A), TWO)),
            ('=A1%%', pct(pct(A))), ('=50%%', pct(('lit', 0.5, '50%'))),
            ('=C1-A1%*B1', ('bin', '-', Cc, ('bin', '*', pct(A), Bc))),
            ('=A1%&B1', ('bin', '&', pct(A), Bc)),
            ('=A1%=B1%', ('bin', '=', pct(A), pct(Bc))),
            ('=1+(A1*2)%', ('bin', '+', ('lit', 1, '1'),
                            pct(('par', ('bin', '*', A, TWO))))),
        ]
        for asg in [(50, 2, 3, 1, 1, 1), (200, -4, 0.5, 1, 1, 1),
                    (-25, 8, 10, 1, 1, 1)]:
            wb = ref.Workbook({('Sheet1', i + 1, 1): v
                               for i, v in enumerate(asg)})
            outs = subject.eval_batch([t for t, _ in forms],
                                      dict(zip(CELLS, asg)))
            for (text, ast), got in zip(forms, outs):
                expect = ref_value(wb, ast)
                if expect[0] == 'undecided':
                    continue
                ctx.event('evaluate_outcomes')
                ctx.event('postfix_percent_cases')
                ctx.case(('postfix-percent', text, asg))
                if not (got[0] == 'value' and values_equal(got[1],
                                                           expect[1])):
                    ctx.fail(f'{text} with {dict(zip(CELLS, asg))}: observed '
                             f'{got}, reference {expect[1]} (x% is x/100, '
                             f'binding tighter than any binary operator)',
                             {'formula': text, 'cells': dict(zip(CELLS, asg)),
                              'observed': got, 'reference': expect[1]},
                             kf=self_attr(R, wb, ast, got),
                             monitor='value-vs-reference',
                             group='postfix-percent:' + text[:8])

    # ---- whole-number powers beyond 2^63 (no silent wrap-around) ---------------
    if sh in (4, 5) or thorough:
        forms = ['=2^63', '=2^64', '=3^40', '=10^19/10^18', '=2^70/2^69',
                 '=2^62*4', '=-2^63-1', '=7^30-7^30', '=(2^63=2^63+1)',
                 '=10^20&""', '=A1^B1', '=A1^B1/A1^C1']
        asg = (2, 70, 69, 1, 1, 1)
        wb = ref.Workbook({('Sheet1', i + 1, 1): v for i, v in enumerate(asg)})
        wants = [2.0 ** 63, 2.0 ** 64, float(3 ** 40), 10.0, 2.0, 2.0 ** 64,
                 -2.0 ** 63 - 1, 0.0, None, None, 2.0 ** 70, 2.0]
        outs = subject.eval_batch(forms, dict(zip(CELLS, asg)))
        for text, want, got in zip(forms, wants, outs):
            ctx.event('evaluate_outcomes')
            ctx.event('big_power_cases')
            ctx.case(('big-power', text))
            if want is None:
                ok = got[0] == 'value'
                if text.startswith('=(2^63='):
                    # 2^63 and 2^63+1 are different whole numbers, or the same
                    # double: either answer is a boolean
                    ok = got[0] == 'value' and got[1][0] == 'bool'
                if text == '=10^20&""':
                    ok = got in (('value', ('text', '100000000000000000000')),
                                 ('value', ('text', '1e+20')),
                                 ('value', ('text', '1E+20')))
            else:
                ok = got[0] == 'value' and got[1][0] == 'num' and \
                    abs(got[1][1] - want) <= 1e-12 * max(1.0, abs(want))
            if not ok:
                ctx.fail(f'{text} with {dict(zip(CELLS, asg))}: observed '
                         f'{got}, expected {want}',
                         {'formula': text, 'cells': dict(zip(CELLS, asg)),
                          'observed': got, 'reference': want},
                         monitor='value-vs-reference',
                         group='big-power:' + text[:6])

    # ---- division by zero inside one operand: #DIV/0! is the result whatever
    # the other operand is (zero factors, zero exponents, empty texts ...) -----
    if sh in (6, 7) or thorough:
        zc = cellref(0)             # A1 = 0
        nc = cellref(1)             # B1 = 3
        asg = (0, 3, 0, 1, 1, 1)
        ZERO = ('lit', 0, '0')
        neutral = [ZERO, zc, ('par', ('bin', '-', nc, nc)), ('lit', 1, '1'),
                   nc]
        failing = [('par', ('bin', '/', ('lit', 1, '1'), ZERO)),
                   ('par', ('bin', '/', nc, zc)),
                   ('par', ('par', ('bin', '/', nc, cellref(2))))]
        for op in OPS:
            for other in neutral:
                for bad_ in failing:
                    R.add(('bin', op, other, bad_), asg, 'error-operand',
                          [('minimal', False)])
                    R.add(('bin', op, bad_, other), asg, 'error-operand',
                          [('minimal', False)])
                    ctx.event('error_operand_cases', 2)
            R.add(('bin', '+', nc, ('bin', op, zc, failing[1])), asg,
                  'error-operand', [('minimal', False)])

    # ---- sampled trees ------------------------------------------------------
    def leaves(r):
        if r.random() < 0.5:
            return cellref(r.randrange(len(CELLS)))
        v, t = r.choice(LITS)
        return ('lit', v, t)
    count = (200000 if thorough else 1200) // n
    maxd = 7 if thorough else 5
    for _ in range(count):
        ast = random_tree(rng, rng.randint(2, maxd), leaves)
        if ast[0] in ('lit', 'ref'):
            continue
        R.add(ast, assignments(1)[0], 'tree',
              [rng.choice(styles), ('minimal', False)])
    R.flush()
    # ---- the operands far out on the sheet: columns of one, two and three
    # letters (Z, AA, ZZ, AAA, XFD), rows of one to seven digits, each reference
    # relative, absolute or mixed ($) ------------------------------------------
    if sh in (4, 5, 6) or thorough:
        spots = [(26, 1), (27, 9), (52, 10), (702, 99), (703, 1), (731, 100),
                 (1000, 1000), (16384, 7), (2, 65536), (705, 1048576),
                 (16384, 1048576), (53, 99999)]
        for _ in range(400 if thorough else 40):
            picks = rng.sample(spots, 4)
            vals = [rng.choice(POOL) for _ in picks]
            cells_ = {('Sheet1', c, r): v for (c, r), v in zip(picks, vals)}
            refs_ = [('ref', None, c, r, rng.random() < 0.6,
                      rng.random() < 0.6) for c, r in picks]
            o1, o2, o3 = (rng.choice(OPS) for _ in range(3))
            toks = [refs_[0], o1, refs_[1], o2, refs_[2], o3, refs_[3]]
            if rng.random() < 0.5:
                toks.insert(rng.choice([0, 2, 4]), '-u')
            ast = climb(toks)
            wb = ref.Workbook(cells_)
            expect = ref_value(wb, ast)
            if expect[0] == 'undecided':
                continue
            text = '=' + ref.render(ast, 'minimal')
            inputs = {f'{ref.col_letters(c)}{r}': v
                      for (_s, c, r), v in cells_.items()}
            got = subject.eval_one(text, inputs)
            ctx.event('far_reference_cases')
            ctx.event('evaluate_outcomes')
            ctx.case(('far', o1, o2, o3, tuple(
                (len(ref.col_letters(r_[2])), r_[4], r_[5]) for r_ in refs_)))
            if got[0] == 'value' and values_equal(got[1], expect[1]):
                continue
            ctx.fail(f'{text} with {inputs}: observed {got}, reference '
                     f'{expect[1]}', {'formula': text, 'cells': inputs,
                                      'observed': got,
                                      'reference': expect[1]},
                     kf=R.attribute(wb, ast, got), monitor='reference-value',
                     group='far-references')
    # ---- whole-valued FLOATS beyond 2^53 are doubles (adding 1 changes nothing),
    # and a doubled sign turns what it is applied to into a number, whatever
    # operator produced it ----------------------------------------------------
    if sh in (10, 11) or thorough:
        cases = []
        for big in (1e17, -1e17, 2.0 ** 53, 3e20, 9007199254740992.0):
            # (expected values by double arithmetic, computed here)
            cases += [('=A1+1=A1', {'A1': big}, ('bool', big + 1 == big)),
                      ('=A1+1-A1', {'A1': big}, ('num', big + 1 - big)),
                      ('=(A1+1)-A1+B1', {'A1': big, 'B1': 0.5},
                       ('num', (big + 1) - big + 0.5)),
                      ('=A1-1<A1', {'A1': big}, ('bool', big - 1 < big)),
                      ('=A1*1+1>A1', {'A1': big},
                       ('bool', big * 1 + 1 > big))]
        for a, b in ((1, 2), (4, 0), (12, 5)):
            joined = float(f'{a}{b}')
            cases += [('=--(A1&B1)', {'A1': a, 'B1': b}, ('num', joined)),
                      ('=--(A1&B1)>5', {'A1': a, 'B1': b},
                       ('bool', joined > 5)),
                      (f'={int(joined)}=--(A1&B1)', {'A1': a, 'B1': b},
                       ('bool', True)),
                      ('=-(-(A1&B1))=--(A1&B1)', {'A1': a, 'B1': b},
                       ('bool', True)),
                      ('=- - ( A1 & B1 )<1000', {'A1': a, 'B1': b},
                       ('bool', True)),
                      ('=--(A1&B1)*2', {'A1': a, 'B1': b},
                       ('num', joined * 2)),
                      ('=--(A1&B1)&"x"', {'A1': a, 'B1': b}, None),
                      ('=--(A1=B1)+--(A1<>B1)', {'A1': a, 'B1': b},
                       ('num', 1.0))]
        for text, inputs, want in cases:
            if want is None:
                continue
            got = subject.eval_one(text, inputs)
            ctx.event('evaluate_outcomes')
            ctx.event('double_sign_and_big_float_cases')
            ctx.case(('double-sign-big-float', text, repr(inputs)))
            ok = got == ('value', want) or (
                got[0] == 'value' and want[0] == 'num'
                and values_equal(got[1], want))
            if not ok:
                ctx.fail(f'{text} with {inputs}: observed {got}, expected '
                         f'{want}', {'formula': text, 'cells': inputs,
                                     'observed': got, 'reference': want},
                         monitor='reference-value',
                         group='double-sign-big-float:' + text[:6])
    # ---- long chains at one precedence level: hundreds of operands joined by
    # + and -, by * and /, or by & (left to right, whatever the length), also as
    # the operand of a comparison or of a lower-precedence operator ------------
    if sh in (7, 8, 9) or thorough:
        for n_ops in (100, 251, 252, 255, 256, 300, 600):
            vals = [rng.choice([1, 2, 3, 0.5, 4, -1, 1.5]) for _ in range(n_ops)]
            inputs = {f'A{i + 1}': v for i, v in enumerate(vals)}
            for family in ('+-', '*/', '&'):
                ops = [rng.choice(family) for _ in range(n_ops - 1)]
                if family == '*/':
                    # keep the running value in range: alternate around 1
                    ops = ['*' if i % 2 == 0 else '/'
                           for i in range(n_ops - 1)]
                    rng.shuffle(ops)
                text = 'A1' + ''.join(f'{o}A{i + 2}'
                                      for i, o in enumerate(ops))
                if family == '&':
                    want_v = ''.join(
                        str(int(v)) if float(v).is_integer() and not
                        isinstance(v, float) else str(v) for v in vals)
                    if any(isinstance(v, float) for v in vals):
                        # the text form of floats is judged in C08/C17
                        vals_i = [int(v) if float(v).is_integer() else 2
                                  for v in vals]
                        inputs_f = {f'A{i + 1}': v
                                    for i, v in enumerate(vals_i)}
                        want_v = ''.join(str(v) for v in vals_i)
                    else:
                        inputs_f = inputs
                    forms = {f'={text}': ('text', want_v),
                             f'=LEN({text})': ('num', float(len(want_v))),
                             f'={text}="x"': ('bool', False)}
                else:
                    inputs_f = inputs
                    acc = float(vals[0])
                    for o, v in zip(ops, vals[1:]):
                        acc = {'+': acc + v, '-': acc - v, '*': acc * v,
                               '/': acc / v}[o]
                    forms = {f'={text}': ('num', acc),
                             f'={text}>1E+300': ('bool', False),
                             f'=({text})*2': ('num', acc * 2),
                             f'=1-{text}' if family == '*/' else
                             f'=2*A1+{text}': ('num', 1 - acc)
                             if family == '*/' else
                             ('num', 2 * vals[0] + acc)}
                outs = subject.eval_batch(list(forms), inputs_f)
                for (ftext, want), got in zip(forms.items(), outs):
                    ctx.event('long_chain_cases')
                    ctx.event('evaluate_outcomes')
                    ctx.case(('long-chain', n_ops, family, ftext[-6:]))
                    ok = got == ('value', want) or (
                        got[0] == 'value' and want[0] == 'num'
                        and values_equal(got[1], want))
                    if not ok:
                        ctx.fail(f'{ftext[:70]}... ({n_ops} operands joined by '
                                 f'{family!r}): observed {str(got)[:160]}, left '
                                 f'to right gives {str(want)[:80]}',
                                 {'operands': n_ops, 'operators': family,
                                  'formula': ftext[:400],
                                  'observed': str(got)[:300],
                                  'reference': str(want)[:300]},
                                 monitor='reference-value',
                                 group=f'long-chain:{family}:{got[0]}')
    ctx.event('pairs_seen', 0)
    ctx.data['pairs'] = sorted('%s %s' % p for p in R.pairs_seen)
    ops_applied = sum(v for k, v in rec.calls.items()
                      if k.startswith('OP_') or k in ('POWER', 'CONCAT'))
    ctx.event('op_applications', ops_applied)
    rec.report()
    for name, args, res in rec.domain_breaks[:5]:
        ctx.note(f'result-domain contract: {name}{args} -> {res}')


def offline(merged, ctx):
    pairs = set()
    for d in merged['data']:
        pairs.update(d.get('pairs', []))
    merged['counters']['pairs_seen'] = len(pairs)
