"""C20 — financial functions satisfy their defining equations.

Events: every call of NPV, PMT, PV, SLN, XNPV, IRR, XIRR through xl.FUNCTIONS
and Evaluator.evaluate for the range-taking spellings.
Oracle: closed forms / residuals in 50-digit arithmetic (mpmath); linearity
and inversion relations on the OBSERVED values.
"""
import math

from vlib import monitors, ref, subject

PROPERTY = 'C20'
RULE = ('rates over (-0.9, 10] (grid incl. 0 exactly, +-[1e-6, 10] random), '
        'cash-flow vectors up to length 30, strictly increasing date vectors '
        '(gaps 1 day .. 5 years), (rate, nper, pv, fv, type) grids, (cost, '
        'salvage, life > 0); IRR/XIRR on flows with one sign change and '
        'positive undiscounted sum (unique root, bracketed and bisected at 50 '
        'digits).  distinct non-trivial = distinct (function, rate class, '
        'length class, spelling)')
ASSUMPTIONS = [
    'tolerances: NPV/XNPV 1e-9 relative to the sum of |terms|; PMT/PV 1e-9 + '
    '8 eps/|r| relative (conditioning of ((1+r)^n - 1)/r in doubles); '
    'IRR/XIRR 1e-6 absolute on the rate (statement)',
    '(r, n) with |n log10(1+r)| > 250 are not generated (overflow of (1+r)^n '
    'is not a property of this code); PMT only with period-end payments',
]
FLOORS = {'npv_calls': 500, 'pmt_pv_calls': 1000, 'sln_calls': 100,
          'xnpv_calls': 300, 'irr_calls': 100, 'xirr_calls': 100,
          'linearity_relations': 100, 'inversion_relations': 200,
          'formula_calls': 50, 'layout_calls': 50, 'xnpv_timed_dates': 30,
          'xnpv_zero_flows': 30, 'whole_number_finance_cases': 6,
          'shifted_range_formulas': 100, 'argument_spelling_cases': 200,
          'high_rate_npv_cases': 20, 'xnpv_orientation_cases': 20}
ANCHOR_FUNCS = {'xlcalculator/xlfunctions/financial.py': [
    'NPV', 'PMT', 'PV', 'SLN', 'XNPV', 'IRR', 'XIRR', '_xnpv', '_xirr']}
TIMEOUT = {'quick': 600, 'thorough': 3000}

EPS = 2.220446049250313e-16


def layouts_of(flows, rng):
    """the flows as one row, and as every rows x cols rectangle with more
    than one row and column that holds exactly these flows (row-major)"""
    n = len(flows)
    out = [('row', [list(flows)])]
    shapes = [(r, n // r) for r in range(2, n) if n % r == 0 and n // r > 1]
    if shapes:
        r, c = rng.choice(shapes)
        out.append((f'{r}x{c}', [list(flows[i * c:(i + 1) * c])
                                 for i in range(r)]))
    return out


def shards(tier):
    return 16


def rate_class(r):
    if r == 0:
        return 'zero'
    if r < 0:
        return 'neg'
    return 'small' if abs(r) < 1e-3 else ('large' if r > 1 else 'mid')


def len_class(n):
    return 'short' if n <= 3 else ('mid' if n <= 10 else 'long')


def gen_rate(rng):
    x = rng.random()
    if x < 0.12:
        return 0.0
    if x < 0.5:
        return rng.choice([0.01, 0.05, 0.1, 0.25, 1.0, 0.001, -0.05, -0.5,
                           0.075, 2.0, 10.0, -0.25, 1e-6, -1e-6])
    if x < 0.8:
        return round(rng.uniform(-0.89, 1.0), 6)
    return round(10 ** rng.uniform(-6, 1), 9) * rng.choice([1, 1, -1]) \
        if rng.random() < 0.7 else round(rng.uniform(1, 10), 4)


def bisect(f, lo, hi, steps=220):
    """root of a function that is positive at lo and not positive at hi"""
    for _ in range(steps):
        mid = (lo + hi) / 2
        if f(mid) > 0:
            lo = mid
        else:
            hi = mid
    return (lo + hi) / 2


def run(ctx):
    import mpmath
    from xlcalculator.xlfunctions import xl, func_xltypes as T
    mp = mpmath
    mp.mp.dps = 50
    F = xl.FUNCTIONS
    rng = ctx.rng
    thorough = ctx.tier == 'thorough'
    N = (40000 if thorough else 2400) // ctx.nshards

    def numval(got):
        return got[1][1] if got[0] == 'value' and got[1][0] == 'num' else None

    def judge(name, desc, got, want, tol_abs, counter, nt, extra=None,
              kf=None):
        ctx.event(counter)
        ctx.case(nt)
        v = numval(got)
        ok = v is not None and abs(v - want) <= tol_abs
        if ctx.want_sample() and rng.random() < 0.003:
            ctx.sample({'call': desc, 'observed': got, 'reference': want,
                        'tolerance': tol_abs})
        if not ok:
            ctx.fail(f'{desc} observed {got}, reference {want!r} (tolerance '
                     f'{tol_abs:.3g})', {'call': desc, 'observed': got,
                                         'reference': want,
                                         'tolerance': tol_abs,
                                         **(extra or {})},
                     kf=kf(got) if kf else None,
                     monitor='defining-equation',
                     group=f'{name}:{nt[1] if nt else ""}:{got[0]}:'
                           f'{got[1][0] if got[0] == "value" else got[1][:14]}')
        return v

    formulas = []

    for i in range(N):
        r = gen_rate(rng)
        if r <= -0.9:
            continue
        # ---- NPV -------------------------------------------------------------
        n = rng.choice([1, 2, 3, 5, 8, 12, 20, 30])
        flows = [round(rng.uniform(-1000, 1000), 2) for _ in range(n)]
        if rng.random() < 0.2:
            flows = [float(int(f)) for f in flows]
        if abs(n * math.log10(1 + r)) < 250:
            terms = [mp.mpf(c) / mp.power(1 + mp.mpf(r), k + 1)
                     for k, c in enumerate(flows)]
            want = float(sum(terms))
            scale = float(sum(abs(t) for t in terms)) or 1.0
            got = monitors.call_outcome(F['NPV'], r, *flows)
            vN = judge('NPV', f'NPV({r}, {flows})', got, want,
                       1e-9 * scale, 'npv_calls',
                       ('NPV', rate_class(r), len_class(n), 'lib'))
            if r == 0:
                judge('NPV', f'NPV(0, {flows}) = plain sum', got,
                      float(sum(flows)), 1e-9 * scale, 'npv_calls',
                      ('NPV-rate0', len_class(n)))
            # linearity in the cash flows, on observed values
            other = [round(rng.uniform(-500, 500), 2) for _ in range(n)]
            a, b = rng.choice([2, -1, 0.5, 3]), rng.choice([1, -2, 0.25])
            g2 = numval(monitors.call_outcome(F['NPV'], r, *other))
            g3 = numval(monitors.call_outcome(
                F['NPV'], r, *[a * x + b * y for x, y in zip(flows, other)]))
            ctx.event('linearity_relations')
            ctx.case(('NPV-linear', rate_class(r), len_class(n)))
            if None in (vN, g2, g3) or abs(g3 - (a * vN + b * g2)) > \
                    1e-9 * (abs(a) * scale + abs(b) * 500 * n + 1):
                if None not in (vN, g2, g3):
                    ctx.fail(f'NPV is not linear: NPV(r,{a}c+{b}d)={g3} but '
                             f'{a}*NPV(c)+{b}*NPV(d)={a * vN + b * g2} at '
                             f'r={r}', {'rate': r, 'c': flows, 'd': other},
                             monitor='linearity', group='NPV-linear')
            if rng.random() < 0.05 and len(formulas) < 400:
                formulas.append(('NPV-range', r, flows, want, 1e-9 * scale))
                for lname, mat in layouts_of(flows, rng):
                    formulas.append(('NPV-matrix', r, mat, want,
                                     1e-9 * scale))
            if i % 16 == 0:
                for lname, mat in layouts_of(flows, rng):
                    got_l = monitors.call_outcome(F['NPV'], r, T.Array(mat))
                    ctx.event('layout_calls')
                    judge('NPV', f'NPV({r}, {mat}) [{lname}]', got_l, want,
                          1e-9 * scale, 'npv_calls',
                          ('NPV', lname, len_class(n)))
        # ---- PMT / PV / inversion ---------------------------------------------------
        nper = rng.choice([1, 2, 5, 10, 12, 24, 60, 120, 360, 7.5, 0.5, 2.25,
                           90.0, 13.75])
        pv = round(rng.uniform(-100000, 100000), 2) or 1000.0
        fv = rng.choice([0, 0, round(rng.uniform(-50000, 50000), 2)])
        if abs(nper * math.log10(1 + r)) < 250 and (r == 0 or
                                                    abs(r) >= 1e-6):
            R1 = 1 + mp.mpf(r)
            if r == 0:
                pmt_ref = -(mp.mpf(pv) + fv) / nper
            else:
                pmt_ref = -(mp.mpf(pv) * R1 ** nper + fv) * mp.mpf(r) / (
                    R1 ** nper - 1)
            rel = 1e-9 + (8 * EPS / abs(r) if r else 0)
            want = float(pmt_ref)
            args = (r, nper, pv) if fv == 0 else (r, nper, pv, fv)
            got = monitors.call_outcome(F['PMT'], *args)
            vP = judge('PMT', f'PMT{args}', got, want,
                       rel * max(abs(want), 1e-9) + 1e-12, 'pmt_pv_calls',
                       ('PMT', rate_class(r), nper, fv != 0))
            if r == 0:
                judge('PMT', f'PMT{args} = plain division', got,
                      -(pv + fv) / nper, 1e-9 * max(abs(want), 1e-9),
                      'pmt_pv_calls', ('PMT-rate0', fv != 0))
            for typ in (0, 1):
                pm = round(rng.uniform(-5000, 5000), 2) or 100.0
                if r == 0:
                    pv_ref = -(mp.mpf(fv) + mp.mpf(pm) * nper)
                else:
                    pv_ref = -(fv + mp.mpf(pm) * (1 + mp.mpf(r) * typ) * (
                        R1 ** nper - 1) / mp.mpf(r)) / R1 ** nper
                want2 = float(pv_ref)
                args2 = (r, nper, pm, fv, typ)
                got2 = monitors.call_outcome(F['PV'], *args2)
                judge('PV', f'PV{args2}', got2, want2,
                      rel * max(abs(want2), abs(fv), 1e-9) + 1e-12,
                      'pmt_pv_calls', ('PV', rate_class(r), nper, typ,
                                       fv != 0))
            # PV(r, n, PMT(r, n, pv)) = pv
            if vP is not None and fv == 0:
                got3 = monitors.call_outcome(F['PV'], r, nper, vP)
                ctx.event('inversion_relations')
                ctx.case(('PV-PMT-inverse', rate_class(r), nper))
                v3 = numval(got3)
                if v3 is None or abs(v3 - pv) > (1e-9 + (
                        16 * EPS / abs(r) if r else 0)) * abs(pv) + 1e-9:
                    ctx.fail(f'PV({r},{nper},PMT({r},{nper},{pv})) = {got3}, '
                             f'expected {pv}', {'rate': r, 'nper': nper,
                                                'pv': pv, 'pmt': vP},
                             monitor='inversion', group='PV-PMT')
        # ---- SLN ----------------------------------------------------------------------
        cost = round(rng.uniform(0, 100000), 2)
        # (an asset may also be worth more in the end than it cost)
        salvage = round(rng.uniform(0, cost * rng.choice([1, 1, 1.5])), 2)
        life = rng.choice([1, 2, 5, 7, 10, 0.5, 12.5, 40])
        got = monitors.call_outcome(F['SLN'], cost, salvage, life)
        judge('SLN', f'SLN({cost},{salvage},{life})', got,
              (cost - salvage) / life, 1e-9 * (cost + 1), 'sln_calls',
              ('SLN', life < 1, salvage == 0))
        # ---- XNPV -------------------------------------------------------------------------
        m = rng.choice([2, 3, 5, 8, 15, 30])
        d0 = rng.randint(30000, 50000)
        dates = [d0]
        for _ in range(m - 1):
            dates.append(dates[-1] + rng.choice([1, 7, 30, 90, 365, 366,
                                                 rng.randint(1, 1825)]))
        if rng.random() < 0.25:
            # dates carrying a time of day (the fraction of the serial)
            dates = [d + rng.choice([0, 0.25, 0.5, 0.75]) for d in dates]
            dates[0] = float(int(dates[0]))
            ctx.event('xnpv_timed_dates')
        vals = [round(rng.uniform(-1000, 1000), 2) for _ in range(m)]
        if rng.random() < 0.2:
            # nothing flows on the first date (the discounting still starts
            # there), or somewhere in between
            vals[rng.choice([0, 0, m - 1, m // 2])] = 0.0
            ctx.event('xnpv_zero_flows')
        span = (dates[-1] - dates[0]) / 365
        if r > -0.9 and abs(span * math.log10(1 + r)) < 250:
            terms = [mp.mpf(v) / mp.power(1 + mp.mpf(r),
                                          mp.mpf(d - dates[0]) / 365)
                     for v, d in zip(vals, dates)]
            want = float(sum(terms))
            scale = float(sum(abs(t) for t in terms)) or 1.0
            A = T.Array([[v] for v in vals])
            Dt = T.Array([[float(d)] for d in dates])
            got = monitors.call_outcome(F['XNPV'], r, A, Dt)
            vX = judge('XNPV', f'XNPV({r}, {vals}, {dates})', got, want,
                       1e-9 * scale, 'xnpv_calls',
                       ('XNPV', rate_class(r), len_class(m), 'lib'))
            other = [round(rng.uniform(-500, 500), 2) for _ in range(m)]
            a, b = rng.choice([2, -1, 0.5]), rng.choice([1, -2, 0.25])
            g2 = numval(monitors.call_outcome(
                F['XNPV'], r, T.Array([[v] for v in other]), Dt))
            g3 = numval(monitors.call_outcome(
                F['XNPV'], r, T.Array([[a * x + b * y] for x, y in
                                       zip(vals, other)]), Dt))
            ctx.event('linearity_relations')
            ctx.case(('XNPV-linear', rate_class(r), len_class(m)))
            if None not in (vX, g2, g3) and abs(g3 - (a * vX + b * g2)) > \
                    1e-9 * (abs(a) * scale + abs(b) * 500 * m * max(
                        1.0, (1 + r) ** (-span) if r < 0 else 1.0) + 1):
                ctx.fail(f'XNPV is not linear at r={r}: {g3} vs '
                         f'{a * vX + b * g2}', {'rate': r, 'v': vals,
                                                'w': other, 'dates': dates},
                         monitor='linearity', group='XNPV-linear')
            if rng.random() < 0.05 and len(formulas) < 400:
                formulas.append(('XNPV-range', r, (vals, dates), want,
                                 1e-9 * scale))
        # ---- IRR / XIRR -------------------------------------------------------------------
        if i % 4 == 0:
            k = rng.choice([2, 3, 5, 8, 12, 20, 30])
            # amounts from hundreds to hundreds of billions (the rate does
            # not depend on the currency unit)
            outlay = round(rng.uniform(100, 10000), 2) * rng.choice(
                [1, 1, 1e3, 1e5, 1e7, 1e9])
            gain = rng.uniform(1.02, 3.0)
            w = [rng.random() + 0.05 for _ in range(k - 1)]
            tot = sum(w)
            rets = [round(outlay * gain * x / tot, 2) for x in w]
            flows = [-outlay] + rets
            if rng.random() < 0.3:
                # back-loaded: nothing (or little) for a long time, then one
                # large payoff: the root is a high rate
                k = rng.choice([10, 20, 30])
                rate_ = rng.choice([0.5, 1.0, 2.0, 3.0])
                flows = [-outlay] + [rng.choice([0.0, 0.0, 1.0])
                                     for _ in range(k - 2)] + \
                    [round(outlay * (1 + rate_) ** (k - 1), 2)]
            if sum(flows) > 0:
                def npv_at(x, flows=flows):
                    return sum(mp.mpf(c) / mp.power(1 + x, j)
                               for j, c in enumerate(flows))
                lo_, hi_ = mp.mpf(0), mp.mpf(1)
                while npv_at(hi_) > 0:
                    hi_ *= 2
                root = bisect(npv_at, lo_, hi_)
                got = monitors.call_outcome(F['IRR'], T.Array(
                    [[c] for c in flows]))
                v = judge('IRR', f'IRR({flows})', got, float(root), 1e-6,
                          'irr_calls', ('IRR', len_class(k),
                                        rate_class(float(root))))
                if v is not None:
                    resid = abs(float(npv_at(mp.mpf(v))))
                    if resid > 1e-6 * outlay * k:
                        ctx.fail(f'IRR({flows}) = {v}: NPV at that rate is '
                                 f'{resid}', {'flows': flows, 'rate': v},
                                 monitor='residual', group='IRR-residual')
                # the same flows laid out as a row and as rectangles (a
                # range is read row by row)
                for lname, mat in layouts_of(flows, rng):
                    got_l = monitors.call_outcome(F['IRR'], T.Array(mat))
                    ctx.event('layout_calls')
                    judge('IRR', f'IRR({mat}) [{lname}]', got_l, float(root),
                          1e-6, 'irr_calls', ('IRR', lname, len_class(k)))
                if rng.random() < 0.3 and len(formulas) < 400:
                    formulas.append(('IRR-range', None, flows, float(root),
                                     1e-6))
                    for lname, mat in layouts_of(flows, rng):
                        formulas.append(('IRR-matrix', None, mat,
                                         float(root), 1e-6))
                # XIRR on irregular dates
                d0 = rng.randint(30000, 50000)
                dts = [d0]
                for _ in range(k - 1):
                    dts.append(dts[-1] + rng.choice(
                        [30, 90, 182, 365, rng.randint(1, 900)]))

                def xnpv_at(x, flows=flows, dts=dts):
                    return sum(mp.mpf(c) / mp.power(
                        1 + x, mp.mpf(d - dts[0]) / 365)
                        for c, d in zip(flows, dts))
                lo_, hi_ = mp.mpf(0), mp.mpf(1)
                guard = 0
                while xnpv_at(hi_) > 0 and guard < 60:
                    hi_ *= 2
                    guard += 1
                if guard < 60 and hi_ < 1e6:
                    xroot = bisect(xnpv_at, lo_, hi_)
                    if float(xroot) <= 10:
                        got = monitors.call_outcome(
                            F['XIRR'], T.Array([[c] for c in flows]),
                            T.Array([[float(d)] for d in dts]))
                        has_zero = any(c == 0 for c in flows)
                        judge('XIRR', f'XIRR({flows}, {dts})', got,
                              float(xroot), 1e-6, 'xirr_calls',
                              ('XIRR', len_class(k),
                               rate_class(float(xroot)), has_zero),
                              kf=(lambda g: 'KF-C20-02' if g == (
                                  'value', ('err', '#NUM!')) else None)
                              if has_zero else None)
                        if rng.random() < 0.3 and len(formulas) < 400:
                            formulas.append(('XIRR-range', None,
                                             (flows, dts), float(xroot),
                                             1e-6))

    # ---- whole-number arguments (as formulas and integer cells hand them over)
    # with growth factors beyond 2^63 ----------------------------------------------
    if ctx.shard in (0, 1) or thorough:
        for rate, nper, pv in ((10, 20, 1000), (2, 40, 1000), (1, 60, 1000),
                               (3, 10, 1000), (1, 64, 1), (9, 19, 5)):
            R1 = 1 + mp.mpf(rate)
            want = float(-(mp.mpf(pv) * R1 ** nper) * rate / (R1 ** nper - 1))
            got = monitors.call_outcome(F['PMT'], rate, nper, pv)
            judge('PMT', f'PMT({rate}, {nper}, {pv}) [whole-number arguments]',
                  got, want, 1e-9 * abs(want), 'pmt_pv_calls',
                  ('PMT-int', rate, nper))
            got = subject.eval_one('=PMT(A1,A2,A3)', {'A1': rate, 'A2': nper,
                                                      'A3': pv})
            judge('PMT', f'=PMT(A1,A2,A3) with whole-number cells '
                  f'{rate}, {nper}, {pv}', got, want, 1e-9 * abs(want),
                  'formula_calls', ('PMT-int-cells', rate, nper))
            pm = -100
            pv_ref = float(-(mp.mpf(pm) * (R1 ** nper - 1) / rate) / R1 ** nper)
            got = monitors.call_outcome(F['PV'], rate, nper, pm)
            judge('PV', f'PV({rate}, {nper}, {pm}) [whole-number arguments]',
                  got, pv_ref, 1e-9 * abs(pv_ref), 'pmt_pv_calls',
                  ('PV-int', rate, nper))
            ctx.event('whole_number_finance_cases')

    # ---- how an argument is written or handed over is no part of its value:
    # small rates spelt 0.00001 / 1E-05 / 1e-05; NPV flows given as single cells,
    # literals and ranges in one call, in order ------------------------------------
    if ctx.shard in (2, 3, 4) or thorough:
        def spellings_of(x):
            from decimal import Decimal
            plain = format(Decimal(repr(abs(x))), 'f')
            forms_ = [plain, '%.6E' % abs(x), repr(abs(x)),
                      ('%.6E' % abs(x)).replace('E', 'e')]
            sign = '-' if x < 0 else ''
            return [sign + f_ for f_ in dict.fromkeys(forms_)]
        flows4 = [-1000.0, 300.0, 420.0, 680.0]
        days4 = [43831.0, 43921.0, 44012.0, 44196.0]
        cells4 = {f'B{i + 1}': v for i, v in enumerate(flows4)}
        cells4.update({f'C{i + 1}': v for i, v in enumerate(days4)})
        for rate in (1e-05, 2.5e-05, -3e-05, 7.25e-07, 4e-05, 1.5e-3, 0.02):
            cases = [
                ('NPV', f'=NPV({{r}},B1:B4)', (rate, *flows4)),
                ('PV', f'=PV({{r}},36,-100)', (rate, 36, -100)),
                ('PMT', f'=PMT({{r}},36,5000,-200)', (rate, 36, 5000, -200)),
                ('XNPV', f'=XNPV({{r}},B1:B4,C1:C4)', None),
            ]
            for fname, tmpl, largs in cases:
                if largs is not None:
                    base = monitors.call_outcome(F[fname], *largs)
                else:
                    base = monitors.call_outcome(
                        F['XNPV'], rate, T.Array([[v] for v in flows4]),
                        T.Array([[v] for v in days4]))
                want = numval(base)
                if want is None:
                    continue
                for sp in spellings_of(rate):
                    text = tmpl.format(r=sp)
                    got = subject.eval_one(text, cells4)
                    ctx.event('argument_spelling_cases')
                    judge(fname, f'{text} (the library call with the float '
                          f'{rate!r} gives {want!r})', got, want,
                          1e-9 * max(abs(want), 1.0), 'formula_calls',
                          (fname, 'rate-spelling', sp))
        # NPV: flows partly single cells / literals, partly ranges
        for _ in range(40 if thorough else 8):
            n_ = rng.randint(3, 7)
            flows_ = [round(rng.uniform(-900, 900), 2) for _ in range(n_)]
            r_ = rng.choice([0.05, 0.1, 0.25, -0.05, 0.011])
            want = float(sum(mp.mpf(c) / mp.power(1 + mp.mpf(r_), k + 1)
                             for k, c in enumerate(flows_)))
            cells_ = {f'B{i + 1}': v for i, v in enumerate(flows_)}
            cells_['A1'] = r_
            parts, i = [], 0
            while i < n_:
                ln = rng.choice([1, 1, 2, 3])
                ln = min(ln, n_ - i)
                if ln == 1:
                    v = flows_[i]
                    parts.append(f'B{i + 1}' if rng.random() < 0.6 else (
                        subject.lit(v) if v >= 0 else '-' + subject.lit(-v)))
                else:
                    parts.append(f'B{i + 1}:B{i + ln}')
                i += ln
            if all(':' not in p_ for p_ in parts):
                parts[-1] = f'B{n_}:B{n_}'
            text = '=NPV(A1,' + ','.join(parts) + ')'
            got = subject.eval_one(text, cells_)
            ctx.event('argument_spelling_cases')
            judge('NPV', f'{text} over {cells_}', got, want,
                  1e-9 * max(abs(want), 1.0), 'formula_calls',
                  ('NPV', 'mixed-arguments', tuple(':' in p_ for p_ in parts)))
            # the same through the library: scalars and arrays in order
            largs = []
            for p_ in parts:
                if ':' in p_:
                    a_, b_ = (int(x[1:]) for x in p_.split(':'))
                    largs.append(T.Array([[v] for v in flows_[a_ - 1:b_]]))
                else:
                    largs.append(cells_[p_] if p_ in cells_ else
                                 float(p_.replace('-', '')) * (
                                     -1 if p_.startswith('-') else 1))
            got_l = monitors.call_outcome(F['NPV'], r_, *largs)
            judge('NPV', f'NPV({r_}, {parts}) [library, mixed arguments]',
                  got_l, want, 1e-9 * max(abs(want), 1.0), 'npv_calls',
                  ('NPV', 'mixed-arguments-lib', len(parts)))

    # ---- NPV at high rates with flows that grow as fast as they are discounted,
    # or whose weight sits in one late payment: every flow counts -------------
    if ctx.shard in (5, 6) or thorough:
        for rate in (10.0, 4.0, 3.0, 2.5, 1.0):
            for shape in ('growing', 'balloon', 'balloon-plus'):
                n_ = 30
                if shape == 'growing':
                    flows_ = [float((1 + rate) ** (k + 1)) for k in range(n_)]
                elif shape == 'balloon':
                    flows_ = [0.0] * (n_ - 1) + [float((1 + rate) ** n_) * 7]
                else:
                    flows_ = [100.0] * (n_ - 1) + [float((1 + rate) ** n_)]
                if max(abs(f_) for f_ in flows_) > 1e300:
                    continue
                terms = [mp.mpf(c) / mp.power(1 + mp.mpf(rate), k + 1)
                         for k, c in enumerate(flows_)]
                want = float(sum(terms))
                got = monitors.call_outcome(F['NPV'], rate, *flows_)
                ctx.event('high_rate_npv_cases')
                judge('NPV', f'NPV({rate}, {shape} flows of {n_} periods)',
                      got, want, 1e-9 * max(abs(want), 1.0), 'npv_calls',
                      ('NPV', 'high-rate', rate, shape))
                cells_ = {f'B{i + 1}': v for i, v in enumerate(flows_)}
                cells_['A1'] = rate
                got = subject.eval_one(f'=NPV(A1,B1:B{n_})', cells_)
                judge('NPV', f'=NPV(A1,B1:B{n_}) at rate {rate}, {shape} '
                      f'flows', got, want, 1e-9 * max(abs(want), 1.0),
                      'formula_calls', ('NPV', 'high-rate-formula', rate,
                                        shape))
    # ---- XNPV: values in a row and dates in a column (and the other way round)
    # are paired cell by cell in reading order, like two rows or two columns ----
    if ctx.shard in (7, 8) or thorough:
        for _ in range(12 if thorough else 3):
            n_ = rng.randint(3, 6)
            vals_ = [round(rng.uniform(-900, 900), 2) for _ in range(n_)]
            d0_ = rng.randint(40000, 45000)
            dts_ = [float(d0_ + 30 * k + rng.randint(0, 20))
                    for k in range(n_)]
            r_ = rng.choice([0.0, 0.05, 0.1, 0.3])
            want = float(sum(mp.mpf(c) / mp.power(
                1 + mp.mpf(r_), mp.mpf(d - dts_[0]) / 365)
                for c, d in zip(vals_, dts_)))
            cells_ = {'H1': r_}
            for k in range(n_):
                cells_[f'{ref.col_letters(2 + k)}1'] = vals_[k]   # row B1..
                cells_[f'A{2 + k}'] = dts_[k]                     # column A2..
                cells_[f'{ref.col_letters(2 + k)}10'] = dts_[k]   # row B10..
                cells_[f'J{2 + k}'] = vals_[k]                    # column J2..
            last = ref.col_letters(1 + n_)
            layouts = {
                'row x column': f'=XNPV(H1,B1:{last}1,A2:A{1 + n_})',
                'column x row': f'=XNPV(H1,J2:J{1 + n_},B10:{last}10)',
                'row x row': f'=XNPV(H1,B1:{last}1,B10:{last}10)',
                'column x column': f'=XNPV(H1,J2:J{1 + n_},A2:A{1 + n_})',
            }
            for lname, text in layouts.items():
                got = subject.eval_one(text, cells_)
                ctx.event('xnpv_orientation_cases')
                judge('XNPV', f'{text} [{lname}] over {vals_} / {dts_}', got,
                      want, 1e-9 * max(abs(want), 1.0) + 1e-9, 'formula_calls',
                      ('XNPV', 'orientation', lname))
            # the same through the library
            A_row = T.Array([vals_])
            D_col = T.Array([[d] for d in dts_])
            got = monitors.call_outcome(F['XNPV'], r_, A_row, D_col)
            judge('XNPV', f'XNPV({r_}, [{vals_}], column of dates) [library]',
                  got, want, 1e-9 * max(abs(want), 1.0) + 1e-9, 'xnpv_calls',
                  ('XNPV', 'orientation-lib'))

    # ---- the range-taking spellings as formulas --------------------------------------
    for kind, r, data, want, tol in formulas:
        cells = {}
        if kind in ('NPV-matrix', 'IRR-matrix'):
            # the rectangle starts at column A or further right (E, F, G, M,
            # O, U, W, AD): a range is read left to right wherever it sits
            c0 = rng.choice([1, 1, 5, 6, 7, 13, 15, 21, 23, 30])
            r0 = rng.choice([1, 1, 4])
            if c0 > 1:
                ctx.event('shifted_range_formulas')
            for i_, row in enumerate(data):
                for j_, c in enumerate(row):
                    cells[f'{ref.col_letters(j_ + c0)}{i_ + r0}'] = c
            rg = (f'{ref.col_letters(c0)}{r0}:'
                  f'{ref.col_letters(c0 + len(data[0]) - 1)}'
                  f'{r0 + len(data) - 1}')
            text = (f'=NPV({subject.lit(r) if r >= 0 else "-" + subject.lit(-r)},{rg})'
                    if kind == 'NPV-matrix' else f'=IRR({rg})')
        elif kind in ('NPV-range', 'IRR-range'):
            for j, c in enumerate(data):
                cells[f'A{j + 1}'] = c
            rg = f'A1:A{len(data)}'
            text = (f'=NPV({subject.lit(r) if r >= 0 else "-" + subject.lit(-r)},{rg})'
                    if kind == 'NPV-range' else f'=IRR({rg})')
        else:
            vals, dts = data
            n_ = len(vals)
            if rng.random() < 0.5:
                for j, (c, d) in enumerate(zip(vals, dts)):
                    cells[f'A{j + 1}'] = c
                    cells[f'B{j + 1}'] = d
                rv, rd = f'A1:A{n_}', f'B1:B{n_}'
            else:
                # flows and dates as two ROWS that start right of column A
                c0 = rng.choice([1, 5, 6, 7, 13, 15, 21, 23, 30])
                ctx.event('shifted_range_formulas')
                for j, (c, d) in enumerate(zip(vals, dts)):
                    cells[f'{ref.col_letters(c0 + j)}1'] = c
                    cells[f'{ref.col_letters(c0 + j)}2'] = d
                last = ref.col_letters(c0 + n_ - 1)
                rv = f'{ref.col_letters(c0)}1:{last}1'
                rd = f'{ref.col_letters(c0)}2:{last}2'
            if kind == 'XNPV-range':
                rt = subject.lit(r) if r >= 0 else '-' + subject.lit(-r)
                text = f'=XNPV({rt},{rv},{rd})'
            else:
                text = f'=XIRR({rv},{rd})'
        got = subject.eval_one(text, cells)
        ctx.event('formula_calls')
        zero_x = kind == 'XIRR-range' and any(c == 0 for c in data[0])
        judge(kind, f'{text} over {cells}', got, want, tol, 'formula_calls',
              (kind, 'formula', len_class(len(cells))),
              kf=(lambda g: 'KF-C20-02' if g == ('value', ('err', '#NUM!'))
                  else None) if zero_x else None)
