"""C04 — evaluation always reflects the current inputs (no stale results).

Events: the API history set_cell_value / evaluate / get_cell_value with results,
recorded at the Evaluator boundary; cells[a].value read back after every
evaluate.
Oracle (statement): evaluate(c) equals what a freshly compiled model holding the
current input values returns for c; the stored value becomes that value; get
returns the last value set or computed; a defined name is equivalent to its
address.  The reference interpreter is run as well (common-mode guard,
non-triviality).
"""
import datetime
import itertools
import os

from vlib import bootstrap, build, gen, monitors, ref, subject

PROPERTY = 'C04'
RULE = ('exhaustive: 7 templates (chain of 3, diamond, range sum with a '
        'formula member, two-sheet chain, an input that does not exist yet, '
        'inputs that change type but not ==) x ALL histories up to length 4 '
        '(quick) / 5 (thorough) over {set(input, 2 values), evaluate(each '
        'cell), get(each cell)}; sampled: random acyclic models of 6-40 cells '
        'with ranges, histories of 30-120 steps incl. hostile steps '
        '(evaluating a cell whose formula currently raises, then repairing '
        'the input; setting Excel-type objects; setting a cell '
        'that does not exist yet; setting through a defined name or an XLCell '
        'address); the model under test is the compiled one, or the one '
        'restored from its JSON file, deep-copied or extracted with all cells '
        'and names in focus.  '
        'non-trivial = history with an evaluate(c) after a set that changes '
        "c's reference value, c having been evaluated before that set (a "
        'staleness opportunity); distinct by (template, history)')
ASSUMPTIONS = [
    'fresh model = ModelCompiler().read_and_parse_dict(current contents) '
    '(xlsx path for models with names), as the statement defines the oracle',
    'get_cell_value is only judged once a value has been set or computed for '
    'the cell',
]
FLOORS = {'steps': 5000, 'staleness_opportunities': 200,
          'fresh_model_comparisons': 500, 'name_sets': 10,
          'hostile_steps': 20, 'derived_models': 30,
          'long_chain_steps': 60, 'reloads_into_the_same_model': 5,
          'inputs_emptied': 20, 'unnormalised_sheet_names': 5,
          'failing_chain_steps': 50}
ANCHOR_FUNCS = {
    'xlcalculator/evaluator.py': ['Evaluator.evaluate',
                                  'Evaluator.set_cell_value',
                                  'Evaluator.get_cell_value'],
    'xlcalculator/model.py': ['Model.set_cell_value', 'Model.get_cell_value'],
}
TIMEOUT = {'quick': 600, 'thorough': 3000}

S = 'Sheet1'


def shards(tier):
    return 16


def K(a, sheet=S):
    col = ref.col_index(''.join(ch for ch in a if ch.isalpha()))
    row = int(''.join(ch for ch in a if ch.isdigit()))
    return (sheet, col, row)


def F(text_ast):
    return ('f', text_ast)


def r(a, sheet=None):
    k = K(a)
    return ('ref', sheet, k[1], k[2], False, False)


def templates():
    one = ('lit', 1, '1')
    two = ('lit', 2, '2')
    yield 'chain3', {
        K('A1'): 1, K('B1'): F(('bin', '+', r('A1'), one)),
        K('C1'): F(('bin', '*', r('B1'), two))}, [K('A1')], [5, -2]
    yield 'diamond', {
        K('A1'): 2, K('B1'): F(('bin', '+', r('A1'), one)),
        K('B2'): F(('bin', '*', r('A1'), r('A1'))),
        K('C1'): F(('bin', '-', r('B1'), r('B2')))}, [K('A1')], [3, 0]
    yield 'range-with-formula-member', {
        K('A1'): 1, K('A2'): F(('bin', '*', r('A1'), two)), K('A3'): 4,
        K('B1'): F(('call', 'SUM', [('rng', None, 1, 1, 1, 3,
                                     (False,) * 4)]))}, [K('A1')], [10, 0.5]
    yield 'two-sheet-chain', {
        ('Sheet1', 1, 1): 1,
        ('Data', 1, 1): F(('bin', '+', ('ref', 'Sheet1', 1, 1, False, False),
                           one)),
        ('Sheet1', 2, 1): F(('bin', '*', ('ref', 'Data', 1, 1, False, False),
                             two))}, [('Sheet1', 1, 1)], [7, -1]


EPOCH = datetime.datetime(1899, 12, 30)


def as_number(n):
    """a date reads as its serial (C09: dates count as their serials)"""
    if n[0] == 'date':
        d = datetime.datetime.fromisoformat(n[1])
        delta = d - EPOCH
        return ('num', delta.days + delta.seconds / 86400.0)
    return n


def close(a, b):
    """numbers agree to 1e-12 relative (whole numbers beyond 2^53 are
    multiplied exactly by the library and as doubles by the reference)"""
    if a == b:
        return True
    if isinstance(a, tuple) and isinstance(b, tuple) and len(a) == 2 and \
            len(b) == 2:
        if a[0] == 'value' and b[0] == 'value':
            return close(a[1], b[1])
        if a[0] == 'num' and b[0] == 'num':
            try:
                return abs(a[1] - b[1]) <= 1e-12 * max(abs(a[1]), abs(b[1]))
            except (TypeError, OverflowError):
                return False
    return False


class ComputedLog:
    """boundary recorder: every return of Evaluator.evaluate (nested ones
    included) is a 'computed' event for the resolved address"""

    def __init__(self):
        self.events = []
        self.installed = False

    def install(self):
        import functools
        from xlcalculator import evaluator
        log = self
        orig = evaluator.Evaluator.evaluate

        @functools.wraps(orig)
        def evaluate(self_, addr, context=None):
            v = orig(self_, addr, context)
            try:
                a = self_.resolve_names(addr)
            except Exception:  # noqa
                a = addr
            log.events.append((id(self_.model), a, v))
            return v
        evaluator.Evaluator.evaluate = evaluate
        self.installed = True
        return self

    def take(self, model):
        ev, self.events = self.events, []
        return [(a, v) for m, a, v in ev if m == id(model)]


COMPUTED = ComputedLog()


def more_templates():
    one = ('lit', 1, '1')
    two = ('lit', 2, '2')
    # the same formula TEXT on two sheets (unqualified references mean the
    # sheet of the cell that holds the formula)
    yield 'same-text-two-sheets', {
        ('Sheet1', 1, 1): 1, ('Data', 1, 1): 10,
        ('Sheet1', 2, 1): F(('bin', '*', ('ref', None, 1, 1, False, False),
                             two)),
        ('Data', 2, 1): F(('bin', '*', ('ref', None, 1, 1, False, False),
                           two))}, [('Sheet1', 1, 1), ('Data', 1, 1)], [3]
    # a sign / percent directly on a reference
    yield 'signed-reference', {
        K('A1'): 3, K('A2'): 2,
        K('B1'): F(('bin', '+', ('neg', r('A1')), two)),
        K('C1'): F(('bin', '*', r('A2'), ('neg', r('A1'))))}, \
        [K('A1')], [5, -1]
    # values that need all 17 significant digits: what is set is what is read
    # back and what a formula sees (kept out of the long random chains, where
    # products of such values cancel and rounding noise decides)
    yield 'seventeen-digits', {
        K('A1'): 0.3, K('B1'): F(r('A1')),
        K('C1'): F(('bin', '=', r('A1'), ('lit', 0.3, '0.3'))),
        K('D1'): F(('bin', '-', r('A1'), ('lit', 0.3, '0.3')))}, \
        [K('A1')], [0.1 + 0.2, 1 / 3]
    yield 'seventeen-digits-2', {
        K('A1'): 1, K('B1'): F(('bin', '*', r('A1'), one)),
        K('C1'): F(('call', 'SUM', [r('A1'), ('lit', 0, '0')]))}, \
        [K('A1')], [1.0000000000000002, 123456789.12345678]
    # an input that does not exist when the model is compiled
    yield 'ghost-input', {
        K('A1'): 1, K('B1'): F(('bin', '+', r('A1'), r('G9'))),
        K('C1'): F(('call', 'ISBLANK', [r('G9')]))}, [K('G9')], [5, 0]
    # type-sensitive formulas over an input that changes type but not "=="
    yield 'typed-input', {
        K('A1'): 1, K('B1'): F(('call', 'ISNUMBER', [r('A1')])),
        K('C1'): F(('bin', '+', r('A1'), one))}, [K('A1')], [True, 1]
    # a formula whose result becomes blank again
    yield 'blank-result', {
        K('A1'): 1, K('C1'): 5,
        K('B1'): F(('call', 'IF', [('bin', '>', r('A1'), ('lit', 0, '0')),
                                   r('C1'), r('D9')])),
        K('B2'): F(r('B1'))}, [K('A1')], [0, 1]
    # a range whose last rows are empty at first
    yield 'range-trailing-blank', {
        K('A1'): 1, K('A2'): 2,
        K('B1'): F(('call', 'SUM', [('rng', None, 1, 1, 1, 4,
                                     (False,) * 4)])),
        K('B2'): F(('bin', '+', r('B1'), one))}, [K('A4')], [5, 7]
    yield 'typed-input-zero', {
        K('A1'): 0, K('B1'): F(('call', 'ISNUMBER', [r('A1')])),
        K('C1'): F(('call', 'ISTEXT', [r('A1')]))}, [K('A1')], [False, 0]


class History:
    """runs one history against the subject, the reference and fresh models"""

    def __init__(self, ctx, label, cells, names=None, use_xlsx=False,
                 provenance='compiled'):
        self.ctx = ctx
        self.label = label
        self.wb = ref.Workbook(cells, names or {})
        self.use_xlsx = use_xlsx or bool(names)
        self.provenance = provenance
        self.model = self.derive(self.compile(self.wb), provenance)
        from xlcalculator import Evaluator
        self.ev = Evaluator(self.model)
        self.log = []
        self.known = {}            # key -> last value set or computed (norm)
        self.evaluated = {}        # key -> reference value when last evaluated
        self.stale_op = 0
        self.failed = False
        self.first_sheet = sorted({k[0] for k in cells})[0]

    def compile(self, wb):
        if self.use_xlsx:
            out = os.path.join(bootstrap.VERIF, 'out', 'c04')
            os.makedirs(out, exist_ok=True)
            return build.model_from_xlsx(
                wb, os.path.join(out, f's{self.ctx.shard}.xlsx'))
        first = sorted({k[0] for k in wb.cells})[0]
        return build.model_from_dict(wb, default_sheet=first)

    def derive(self, model, provenance):
        """'a model' of the statement is any Model the public API hands out:
        compiled, restored from its JSON file, deep-copied, or extracted with
        everything in focus (C12/C13 say those are equivalent models)"""
        if provenance != 'compiled':
            self.ctx.event('derived_models')
        return build.derive(model, provenance, os.path.join(
            bootstrap.VERIF, 'out', 'c04', f's{self.ctx.shard}.json'))

    def ref_value(self, key):
        try:
            return ('value', ref.to_norm(self.wb.value(key)))
        except ref.RefPythonError as e:
            return ('raises', str(e))
        except ref.Undecided:
            return ('undecided',)

    def fail(self, what, monitor):
        self.failed = True
        prov = '' if self.provenance == 'compiled' else \
            f' ({self.provenance} model)'
        self.ctx.fail(f'[{self.label}]{prov} after {self.log[-6:]}: {what}',
                      {'template': self.label, 'model': self.provenance,
                       'initial_cells': build.dict_of(
                           ref.Workbook(self.initial)) if hasattr(
                               self, 'initial') else None,
                       'history': self.log, 'problem': what},
                      monitor=monitor, group=f'{monitor}:{self.label[:12]}')

    def do_set(self, key, value, via_name=None, lib_value=None,
               via_xlcell=False):
        a = via_name or build.addr(key)
        if via_xlcell:
            from xlcalculator import xltypes
            a = xltypes.XLCell(build.addr(key), None)
            # the address object may be the model's own cell, or one that
            # carries a value of its own: the VALUE argument is what counts
            own = self.model.cells.get(build.addr(key))
            if via_xlcell == 'own' and own is not None:
                a = own
            elif via_xlcell == 'carrying':
                a = xltypes.XLCell(build.addr(key), 12345)
        self.log.append(f'set({a}, {value!r})' if lib_value is None
                        else f'set({a}, {lib_value!r})')
        self.ctx.event('steps')
        before = {k: self.ref_value(k) for k in self.evaluated}
        try:
            self.ev.set_cell_value(a, value if lib_value is None
                                   else lib_value)
        except Exception as e:  # noqa
            self.fail(f'set_cell_value({a!r}, {value!r}) raised '
                      f'{type(e).__name__}: {e}', 'set-raises')
            return
        refv = value
        if isinstance(value, datetime.datetime):
            refv = (value - datetime.datetime(1899, 12, 30)).days
        self.wb.cells[key] = refv
        self.known[key] = monitors.norm(value if lib_value is None
                                        else lib_value)
        for k, old in before.items():
            new = self.ref_value(k)
            if new != old and new[0] == 'value':
                self.pending_stale = getattr(self, 'pending_stale', set())
                self.pending_stale.add(k)

    def do_evaluate(self, key, compare_fresh=True):
        a = build.addr(key)
        self.ctx.event('steps')
        COMPUTED.take(self.model)
        got = subject.outcome_of(lambda: self.ev.evaluate(a))
        for ca, cv in COMPUTED.take(self.model):
            ck = K(ca.split('!')[1], ca.split('!')[0])
            if build.is_formula(self.wb.cells.get(ck)):
                self.known[ck] = monitors.norm(cv)
        if got[0] == 'value':
            got = ('value', as_number(got[1]))
        want = self.ref_value(key)
        self.log.append(f'evaluate({a}) -> {got[1] if got[0] == "value" else got}')
        if want[0] == 'undecided':
            return
        if key in getattr(self, 'pending_stale', set()):
            self.ctx.event('staleness_opportunities')
            self.stale_op += 1
            self.pending_stale.discard(key)
        if want[0] == 'raises':
            if got[0] != 'raised':
                self.fail(f'evaluate({a}) returned {got} although the '
                          f'formula currently fails ({want[1]})',
                          'evaluate-vs-reference')
            return
        if not close(got, want):
            self.fail(f'evaluate({a}) -> {got}, reference for the current '
                      f'inputs {want[1]}', 'evaluate-vs-reference')
            return
        self.evaluated[key] = want
        c = self.wb.cells.get(key)
        if build.is_formula(c):
            self.known[key] = got[1]
            # the stored value becomes that value
            stored = as_number(monitors.norm(self.model.cells[a].value)) \
                if a in self.model.cells else ('missing',)
            if not close(stored, want[1]):
                self.fail(f'after evaluate({a}) the stored value is '
                          f'{stored}, evaluate returned {want[1]}',
                          'stored-value')
        if compare_fresh:
            from xlcalculator import Evaluator
            self.ctx.event('fresh_model_comparisons')
            try:
                fresh = Evaluator(self.compile(self.wb))
                fv = subject.outcome_of(lambda: fresh.evaluate(a))
                if fv[0] == 'value':
                    fv = ('value', as_number(fv[1]))
            except Exception as e:  # noqa
                fv = ('raised', repr(e))
            if fv != got:
                self.fail(f'evaluate({a}) -> {got} but a freshly compiled '
                          f'model with the current inputs gives {fv}',
                          'evaluate-vs-fresh-model')

    def do_save(self):
        """the model's state is written to its JSON file ..."""
        path = os.path.join(bootstrap.VERIF, 'out', 'c04',
                            f'saved{self.ctx.shard}.json')
        os.makedirs(os.path.dirname(path), exist_ok=True)
        self.model.persist_to_json_file(path)
        self.saved = (path, dict(self.wb.cells))
        self.log.append('save()')
        self.ctx.event('steps')

    def do_reload(self):
        """... and later read back INTO THE SAME Model object, which the
        Evaluator goes on using (a reset to the saved state)"""
        path, cells = self.saved
        self.log.append('reload()')
        self.ctx.event('steps')
        self.ctx.event('reloads_into_the_same_model')
        try:
            self.model.construct_from_json_file(path, build_code=True)
        except Exception as e:  # noqa
            self.fail(f'construct_from_json_file raised {e!r}', 'set-raises')
            return
        self.wb.cells.clear()
        self.wb.cells.update(cells)
        self.known = {}
        self.evaluated = {}
        self.pending_stale = set()

    def do_get(self, key, via_name=None):
        a = via_name or build.addr(key)
        self.ctx.event('steps')
        got = subject.outcome_of(lambda: self.ev.get_cell_value(a))
        self.log.append(f'get({a}) -> {got[1] if got[0] == "value" else got}')
        if key not in self.known:
            return
        if got[0] != 'value' or as_number(got[1]) != as_number(
                self.known[key]):
            self.fail(f'get_cell_value({a}) -> {got}, last value set or '
                      f'computed is {self.known[key]}', 'get-last-value')


def run_exhaustive(ctx, maxlen):
    idx = 0
    for label, cells, inputs, values in list(templates()) + list(
            more_templates()):
        keys = list(cells)
        ops = [('set', k, v) for k in inputs for v in values]
        ops += [('evaluate', k, None) for k in keys]
        ops += [('get', k, None) for k in keys]
        total = 0
        for L in range(1, maxlen + 1):
            for hist in itertools.product(ops, repeat=L):
                idx += 1
                if idx % ctx.nshards != ctx.shard:
                    continue
                # prune: a history without any evaluate decides nothing
                if not any(o[0] == 'evaluate' for o in hist):
                    continue
                total += 1
                prov = {3: 'extracted', 6: 'deepcopy', 9: 'json'}.get(
                    total % 10, 'compiled')
                H = History(ctx, label, dict(cells), provenance=prov)
                H.initial = dict(cells)
                for i, (op, k, v) in enumerate(hist):
                    if H.failed:
                        break
                    if op == 'set':
                        H.do_set(k, v)
                    elif op == 'evaluate':
                        H.do_evaluate(k, compare_fresh=(i == L - 1))
                    else:
                        H.do_get(k)
                ctx.case((label, tuple((o[0], o[1], o[2]) for o in hist))
                         if H.stale_op else None)
                if ctx.want_sample() and H.stale_op and \
                        ctx.rng.random() < 0.01:
                    ctx.sample({'template': label, 'history': H.log})
        ctx.block(f'{label}: all histories up to length {maxlen} with an '
                  f'evaluate', total)


def run_sampled(ctx, count):
    rng = ctx.rng
    from xlcalculator.xlfunctions import func_xltypes as T
    monitors.Spies().install()
    # inputs get emptied in these histories; how a blank orders against a
    # value is decided in C09 (KF-C09-03), not here
    ref.QUIRKS.add('blank_compare_undecided')
    for hi in range(count):
        sheets = ('Sheet1',) if rng.random() < 0.6 else ('Sheet1', 'Data')
        if hi % 5 == 4:
            # a sheet name that a Unicode normalisation would change
            sheets = ('Sheet1', rng.choice(['m\u00b2 data', '\u2161 b',
                                           '\uff12\uff10\uff12\uff14 x',
                                           'Cafe\u0301 1']))
            ctx.event('unnormalised_sheet_names')
        m = gen.gen_model(rng, n_inputs=rng.randint(2, 10),
                          n_formulas=rng.randint(4, 30), sheets=sheets)
        cells = dict(m.cells)
        names = {}
        use_names = rng.random() < 0.3
        if use_names:
            for i, k in enumerate(rng.sample(m.inputs,
                                             min(2, len(m.inputs)))):
                names[f'Inp{i}'] = ('ref', k[0], k[1], k[2], True, True)
        # a hostile cell: raises while its input is non-zero
        hostile = None
        if rng.random() < 0.5 and m.inputs:
            src = rng.choice(m.inputs)
            hostile = (sheets[0], 6, 1)
            cells[hostile] = ('f', ('bin', '+', ('call', 'BOOM', [
                gen.R(src, sheets[0])]), gen.R(src, sheets[0])))
        # a formula over a cell that does not exist yet
        ghost = (sheets[0], 7, 9)
        ghost_user = (sheets[0], 6, 2)
        cells[ghost_user] = ('f', ('bin', '+', gen.R(ghost, sheets[0]),
                                   ('lit', 1, '1')))
        prov = rng.choice(['compiled', 'compiled', 'extracted', 'json',
                           'deepcopy'])
        try:
            H = History(ctx, f'random-{ctx.shard}-{hi}', cells, names,
                        provenance=prov)
        except Exception as e:  # noqa
            ctx.fail(f'building the model raised {e!r}',
                     {'cells': build.dict_of(ref.Workbook(cells))},
                     monitor='construction', group='build')
            continue
        H.initial = dict(cells)
        all_keys = list(cells)
        steps = rng.randint(30, 120)
        for _ in range(steps):
            if H.failed:
                break
            x = rng.random()
            if x < 0.3:
                k = rng.choice(m.inputs)
                v = rng.choice([0, 1, 2, 3, -1, 0.5, 10, 7, 2.5, True, False])
                y = rng.random()
                if use_names and y < 0.4:
                    nm = [n for n, t in names.items()
                          if (t[1], t[2], t[3]) == k]
                    if nm:
                        H.do_set(k, v, via_name=nm[0])
                        ctx.event('name_sets')
                        continue
                if y > 0.9:
                    H.do_set(k, v, lib_value=T.ExcelType.cast_from_native(v))
                    ctx.event('hostile_steps')
                else:
                    H.do_set(k, v)
            elif x < 0.35:
                H.do_set(ghost, rng.choice([4, 5, 6]),
                         via_xlcell=rng.random() < 0.3)
                ctx.event('hostile_steps')
            elif x < 0.38:
                H.do_set(rng.choice(m.inputs), rng.choice([0, 1, 2, 3, 7]),
                         via_xlcell=rng.choice([True, 'own', 'carrying']))
                ctx.event('hostile_steps')
            elif x < 0.395:
                # emptying an input (None), through every form of address
                H.do_set(rng.choice(m.inputs), None,
                         via_xlcell=rng.choice([False, True, 'own',
                                                'carrying']))
                ctx.event('hostile_steps')
                ctx.event('inputs_emptied')
            elif x < 0.415 and prov == 'compiled' and not use_names:
                if getattr(H, 'saved', None) is None:
                    H.do_save()
                else:
                    H.do_reload()
                ctx.event('hostile_steps')
            elif x < 0.85:
                k = rng.choice(all_keys)
                if k == hostile:
                    ctx.event('hostile_steps')
                H.do_evaluate(k, compare_fresh=rng.random() < 0.15)
            else:
                k = rng.choice(all_keys)
                nm = [n for n, t in names.items() if (t[1], t[2], t[3]) == k]
                H.do_get(k, via_name=nm[0] if nm and rng.random() < 0.5
                         else None)
        ctx.case((H.label, len(H.log)) if H.stale_op else None)
        if ctx.want_sample() and rng.random() < 0.2:
            ctx.sample({'cells': build.dict_of(ref.Workbook(cells)),
                        'history_tail': H.log[-8:],
                        'staleness_opportunities': H.stale_op})


def run_failing_chain(ctx):
    """a chain of formula cells whose far end fails while an input says so
    (unknown function, text where a number is needed, an enormous digit
    count): the head is evaluated (fails), the input is repaired, the head and
    every link are evaluated again on the SAME Evaluator and give what a fresh
    model of the current contents gives; and the other way round, repeatedly"""
    from xlcalculator import Evaluator
    variants = {
        'unknown function': ('=IF(A1=1,NOSUCHFUNCTION(1),5)', 1, 0, 5.0),
        'round to 1e200 digits': ('=ROUND(2.5,A1)+3', 1e200, 1, 5.5),
        'text operand via user error': ('=IF(A1="x",BOOMX(A1),A1*5)', 'x', 1,
                                        5.0),
    }
    for label, (far, bad, good, v_far) in variants.items():
        cells = {'A1': good, 'B1': far, 'C1': '=B1+1', 'D1': '=C1*2',
                 'E1': '=SUM(B1:D1)'}
        ev = Evaluator(subject.compile_dict(cells))
        want_good = {'B1': v_far, 'C1': v_far + 1, 'D1': (v_far + 1) * 2,
                     'E1': v_far + v_far + 1 + (v_far + 1) * 2}
        log = []
        for step, state in enumerate(('good', 'bad', 'good', 'bad', 'good')):
            ev.set_cell_value('Sheet1!A1', good if state == 'good' else bad)
            for a in ('D1', 'E1', 'C1', 'B1'):
                got = subject.outcome_of(lambda: ev.evaluate(f'Sheet1!{a}'))
                ctx.event('steps')
                ctx.event('failing_chain_steps')
                log.append(f'[{state}] evaluate({a}) -> {str(got)[:80]}')
                if state == 'bad':
                    ok = got[0] == 'raised' or (
                        got[0] == 'value' and got[1][0] == 'err')
                else:
                    ok = got == ('value', ('num', float(want_good[a])))
                ctx.case(('failing-chain', label, state, a, step))
                if not ok:
                    ctx.fail(f'chain B1 {far} <- C1 <- D1, E1=SUM(B1:D1) '
                             f'({label}), A1 now {state}: evaluate({a}) -> '
                             f'{str(got)[:200]}, a fresh model gives '
                             f'{"a failure" if state == "bad" else want_good[a]}'
                             f' (history {log[-6:]})',
                             {'cells': cells, 'history': log[-12:],
                              'state': state, 'cell': a,
                              'observed': str(got)[:300]},
                             monitor='fresh-model-equivalence',
                             group=f'failing-chain:{label}:{state}')
                    break


def run_long_chains(ctx):
    """a chain of 130 / 180 formula cells: evaluate its head, re-assign the
    input at its far end, evaluate the head (and cells in the middle) again"""
    from xlcalculator import Evaluator
    rng = ctx.rng
    for n in (130, 180):
        for style in ('plus', 'sum'):
            cells = {f'A{n + 1}': 1}
            for k in range(1, n + 1):
                cells[f'A{k}'] = f'=A{k + 1}+1' if style == 'plus' \
                    else f'=SUM(A{k + 1},1)'
            ev = Evaluator(subject.compile_dict(cells))
            log = []
            v = 1
            for step in range(4):
                if step:
                    v = rng.choice([5, 10, -3, 0.5, 100]) + step
                    ev.set_cell_value(f'Sheet1!A{n + 1}', v)
                    log.append(f'set(A{n + 1}, {v})')
                probes = [1] if step % 2 == 0 else \
                    [rng.randint(2, n), 1, rng.randint(2, n)]
                for k in probes:
                    got = subject.outcome_of(
                        lambda: ev.evaluate(f'Sheet1!A{k}'))
                    want = ('value', ('num', float(v + n + 1 - k)))
                    log.append(f'evaluate(A{k}) -> {got[1]}')
                    ctx.event('steps')
                    ctx.event('long_chain_steps')
                    ctx.case(('long-chain', n, style, step, k == 1))
                    if got != want:
                        ctx.fail(f'[chain of {n} cells linked by {style}] '
                                 f'after {log[-5:]}: evaluate(A{k}) -> {got}, '
                                 f'reference {want[1]}',
                                 {'template': f'chain-{n}-{style}',
                                  'history': log, 'problem': str(got)},
                                 monitor='evaluate-vs-reference',
                                 group=f'long-chain:{style}')
                        break


def run(ctx):
    thorough = ctx.tier == 'thorough'
    COMPUTED.install()
    if ctx.shard in (0, 5, 10) or thorough:
        run_long_chains(ctx)
        run_failing_chain(ctx)
    run_exhaustive(ctx, 5 if thorough else 4)
    run_sampled(ctx, (3000 if thorough else 96) // ctx.nshards)
