"""C02 — every well-formed formula parses to the tree its text denotes.

Events: return / raise of FormulaParser().parse(text, {}) (decides), of
ExcelParser().getTokens(text) (no 'unknown' token, balanced start/stop) and of
XLFormula(text, sheet).terms (the written references).
Oracle: the generator's own AST, canonicalised.
"""
import re
from vlib import ref, subject

PROPERTY = 'C02'
RULE = ('grammar-driven ASTs (calls with 0-8 arguments nested to depth 4, 12 '
        'binary operators, unary minus, redundant parentheses, relative/$/'
        'sheet-qualified/quoted-sheet references and ranges, numbers incl. '
        'decimal, percent and scientific literals, TRUE/FALSE, the 7 error '
        'literals, string literals over the printable alphabet) x renderings '
        '(leading "=", blanks/newlines between tokens incl. leading and '
        'trailing, "@" before function names); exhaustive block: each of the '
        '14 tokenizer delimiters as first/last/only/middle character of a '
        'string literal x 6 embedding contexts.  non-trivial = AST with >= 3 '
        'nodes containing a delimiter-bearing string, a quoted sheet, a '
        'nested call or non-minimal whitespace; distinct by canonical tree + '
        'rendering class')
ASSUMPTIONS = [
    'the generator AST is the reference; x% on a literal may be represented '
    'as a folded number or as x*0.01; $ may be kept or stripped in '
    'coordinates',
    'not generated: postfix % on non-literals, unary plus, intersection by '
    'blank, union by comma, array constants, 3-D references, a blank between '
    'a unary minus and its operand',
]
FLOORS = {'parses': 3000, 'delimiters_in_strings': 14,
          'parses_with_defined_names': 500,
          'parses_on_reused_parser': 3000, 'rejected_formulas_fed': 50,
          'long_formula_parses': 12, 'tokenize_range_calls': 20,
          'postfix_percent_group_parses': 200}
ANCHOR_FUNCS = {
    'xlcalculator/parser.py': ['FormulaParser.parse',
                               'FormulaParser.shunting_yard',
                               'FormulaParser.build_ast'],
    'xlcalculator/tokenizer.py': ['ExcelParser.getTokens'],
    'xlcalculator/xltypes.py': ['XLFormula.__post_init__'],
}
TIMEOUT = {'quick': 600, 'thorough': 3000}

DELIMS = '"\'!#%(),:;[]{}'
SHEETS = ['Sheet1', 'Data', 'My Sheet', "It's", 'Q1 2020', 'a_b',
          # characters that are syntax OUTSIDE a quoted sheet name
          'Plan (v2', 'x) y', '5" pipe', 'a,b', 'p&l', '(old) data', 'a+b',
          'R=1', 'FY24-Q1', '{x}', '#REF', '100%', 'a;b', 'TRUE',
          'Cafe\u0301', '\u2126 values', '\uff12\uff10\uff12\uff14']
FUNCS = ['SUM', 'IF', 'MAX', 'CONCAT', 'ROUND', 'MID', 'PI', 'AND', 'LEN',
         'VLOOKUP', 'COUNTIFS', '_xlfn.CONCAT']
ALPHABET = ''.join(chr(c) for c in range(32, 127))


def shards(tier):
    return 16


# -- canonical forms ----------------------------------------------------------

def canon_gen(a):
    k = a[0]
    if k == 'lit':
        v = a[1]
        if isinstance(v, ref.Err):
            return ('err', v.code)
        if isinstance(v, bool):
            return ('bool', v)
        if isinstance(v, str):
            return ('str', v)
        return ('num', float(v))
    if k == 'par':
        return canon_gen(a[1])
    if k == 'neg':
        return ('neg', canon_gen(a[1]))
    if k == 'bin':
        return ('bin', a[1], canon_gen(a[2]), canon_gen(a[3]))
    if k == 'ref':
        return ('ref', a[1], f'{ref.col_letters(a[2])}{a[3]}')
    if k == 'rng':
        return ('rng', a[1], f'{ref.col_letters(a[2])}{a[3]}',
                f'{ref.col_letters(a[4])}{a[5]}')
    if k == 'call':
        return ('call', a[1].upper(), tuple(canon_gen(x) for x in a[2]))
    raise ValueError(a)


def canon_addr(text):
    sheet = None
    if '!' in text:
        sheet, text = text.rsplit('!', 1)
        if len(sheet) >= 2 and sheet[0] == "'" and sheet[-1] == "'":
            sheet = sheet[1:-1].replace("''", "'")
    text = text.replace('$', '')
    if ':' in text:
        a, b = text.split(':', 1)
        return ('rng', sheet, a, b)
    return ('ref', sheet, text)


def canon_lib(node):
    from xlcalculator import ast_nodes
    if isinstance(node, ast_nodes.FunctionNode):
        return ('call', str(node.tvalue).upper(),
                tuple(canon_lib(x) for x in (node.args or [])))
    if isinstance(node, ast_nodes.OperatorNode):
        if node.ttype == 'operator-infix':
            l, r = canon_lib(node.left), canon_lib(node.right)
            return ('bin', node.tvalue, l, r)
        if node.ttype == 'operator-prefix':
            return ('neg', canon_lib(node.right))
        if node.ttype == 'operator-postfix':
            return ('pct', canon_lib(node.left))
        return ('op?', node.ttype, node.tvalue)
    if isinstance(node, ast_nodes.RangeNode):
        return canon_addr(str(node.tvalue))
    if isinstance(node, ast_nodes.OperandNode):
        st = node.tsubtype
        if st == 'text':
            return ('str', node.tvalue)
        if st == 'logical':
            return ('bool', str(node.tvalue).upper() == 'TRUE')
        if st == 'error':
            return ('err', node.tvalue)
        try:
            return ('num', float(node.tvalue))
        except Exception:  # noqa
            return ('operand?', st, repr(node.tvalue))
    return ('node?', type(node).__name__)


def fold_pct(c):
    """x% of a literal may be a folded number, x*0.01 or a postfix node"""
    if not isinstance(c, tuple):
        return c
    if c[0] == 'pct' and c[1][0] == 'num':
        return ('num', c[1][1] / 100)
    if (c[0] == 'bin' and c[1] == '*' and c[3] == ('num', 0.01)
            and c[2][0] == 'num'):
        return ('num', c[2][1] * 0.01)
    if c[0] in ('bin',):
        return ('bin', c[1], fold_pct(c[2]), fold_pct(c[3]))
    if c[0] == 'neg':
        return ('neg', fold_pct(c[1]))
    if c[0] == 'call':
        return ('call', c[1], tuple(fold_pct(x) for x in c[2]))
    return c


def same_tree(a, b):
    if a[0] == 'num' and b[0] == 'num':
        return a[1] == b[1] or abs(a[1] - b[1]) <= 1e-15 * abs(a[1])
    if a[0] != b[0] or len(a) != len(b):
        return False
    for x, y in zip(a[1:], b[1:]):
        if isinstance(x, tuple) and isinstance(y, tuple):
            if x and isinstance(x[0], str) and y and isinstance(y[0], str) \
                    and x[0] in ('num', 'str', 'bool', 'err', 'ref', 'rng',
                                 'bin', 'neg', 'call', 'pct'):
                if not same_tree(x, y):
                    return False
            else:
                if len(x) != len(y):
                    return False
                for p, q in zip(x, y):
                    if not same_tree(p, q):
                        return False
        elif x != y:
            return False
    return True


def refs_of(c, out):
    if c[0] in ('ref', 'rng'):
        if c not in out:
            out.append(c)
    elif c[0] == 'bin':
        refs_of(c[2], out)
        refs_of(c[3], out)
    elif c[0] == 'neg':
        refs_of(c[1], out)
    elif c[0] == 'call':
        for x in c[2]:
            refs_of(x, out)
    return out


def size(c):
    if c[0] == 'bin':
        return 1 + size(c[2]) + size(c[3])
    if c[0] == 'neg':
        return 1 + size(c[1])
    if c[0] == 'call':
        return 1 + sum(size(x) for x in c[2])
    return 1


# -- generator ----------------------------------------------------------------

def rand_string(rng, hostile):
    if hostile:
        n = rng.randint(0, 6)
        pool = list(DELIMS + 'aZ 09=+-*/<>&^.') + ['\r\n', '\r', '\n',
                                                   '\t', '\r\n', '\n\r']
        # characters that a Unicode normalisation would replace
        pool += ['e\u0301', '\u2126', '\u212b', '\u1100\u1161', 'o\u0308',
                 '\uff11', '\ufb01', '\u00b2']
        return ''.join(rng.choice(pool) for _ in range(n))
    n = rng.randint(0, 10)
    return ''.join(rng.choice(ALPHABET) for _ in range(n))


def str_lit(s):
    return ('lit', s, '"' + s.replace('"', '""') + '"')


NUM_LITS = [(0, '0'), (1, '1'), (42, '42'), (3.25, '3.25'), (0.5, '0.5'),
            (100000, '100000'), (0.5, '50%'), (0.125, '12.5%'),
            (1.5E+3, '1.5E+3'), (2.5E-7, '2.5E-7'), (1E+20, '1E+20')]


def rand_ref(rng):
    sheet = rng.choice([None, None] + SHEETS)
    col = rng.choice([1, 2, 26, 27, 52, 703, 16384])
    row = rng.choice([1, 2, 9, 10, 99, 1000, 1048576])
    if rng.random() < 0.3:
        c2 = col + rng.randint(0, 3)
        r2 = row + rng.randint(0, 5)
        fl = tuple(rng.random() < 0.3 for _ in range(4))
        return ('rng', sheet, col, row, c2, r2, fl)
    return ('ref', sheet, col, row, rng.random() < 0.3, rng.random() < 0.3)


def rand_leaf(rng, hostile):
    r = rng.random()
    if r < 0.3:
        return rand_ref(rng)
    if r < 0.55:
        v, t = rng.choice(NUM_LITS)
        return ('lit', v, t)
    if r < 0.8:
        return str_lit(rand_string(rng, hostile))
    if r < 0.9:
        b = rng.random() < 0.5
        return ('lit', b, 'TRUE' if b else 'FALSE')
    code = rng.choice(ref.ERROR_CODES)
    return ('lit', ref.Err(code), code)


def rand_ast(rng, depth, hostile):
    if depth <= 0 or rng.random() < 0.2:
        return rand_leaf(rng, hostile)
    r = rng.random()
    if r < 0.4:
        name = rng.choice(FUNCS)
        n = 0 if name == 'PI' else rng.choice([1, 1, 2, 2, 3, 4, 8])
        return ('call', name, [rand_ast(rng, depth - 1, hostile)
                               for _ in range(n)])
    if r < 0.5:
        return ('par', rand_ast(rng, depth - 1, hostile))
    if r < 0.58:
        x = rand_ast(rng, depth - 1, hostile)
        if x[0] == 'neg':
            return x
        return ('neg', x)
    op = rng.choice(ref.BINOPS)
    return ('bin', op, rand_ast(rng, depth - 1, hostile),
            rand_ast(rng, depth - 1, hostile))


def render_variant(rng, ast, variant):
    """variant: dict(eq, ws, lead, trail, at)"""
    ws_pool = ['', '', ' ', '  ', '\n', ' \n ']
    sp = (lambda: rng.choice(ws_pool)) if variant.get('ws') else None
    text = ref.render(ast, 'minimal', sp)
    if variant.get('at'):
        import re
        text = re.sub(r'(?<![A-Za-z0-9_.$!\'"])((?:_xlfn\.)?[A-Z]+)\(',
                      lambda m: '@' + m.group(0)
                      if rng.random() < 0.7 else m.group(0), text)
    if variant.get('eq', True):
        text = '=' + variant.get('after_eq', '') + text
    text = variant.get('lead', '') + text + variant.get('trail', '')
    return text


# rendering of string literals must survive the "@" regexp: guard by only
# applying "@" to formulas without string literals
def strings_of(c, out):
    if c[0] == 'str':
        out.append(c[1])
    elif c[0] == 'bin':
        strings_of(c[2], out)
        strings_of(c[3], out)
    elif c[0] == 'neg':
        strings_of(c[1], out)
    elif c[0] == 'call':
        for x in c[2]:
            strings_of(x, out)
    return out


def has_string(c):
    if c[0] == 'str':
        return True
    if c[0] == 'bin':
        return has_string(c[2]) or has_string(c[3])
    if c[0] == 'neg':
        return has_string(c[1])
    if c[0] == 'call':
        return any(has_string(x) for x in c[2])
    return False


def features(c, out):
    if c[0] == 'str' and any(ch in DELIMS for ch in c[1]):
        out.add('delim-string')
    if c[0] in ('ref', 'rng') and c[1] is not None and \
            ref.quote_sheet(c[1]) != c[1]:
        out.add('quoted-sheet')
    if c[0] == 'call':
        if any(x[0] == 'call' for x in c[2]):
            out.add('nested-call')
        for x in c[2]:
            features(x, out)
    if c[0] == 'bin':
        features(c[2], out)
        features(c[3], out)
    if c[0] == 'neg':
        features(c[1], out)
    return out


class Runner:
    def __init__(self, ctx):
        self.ctx = ctx
        self.delims_seen = set()
        self.shared = None

    def one(self, ast, variant, kind):
        from xlcalculator import parser, tokenizer, xltypes
        ctx = self.ctx
        rng = ctx.rng
        want = canon_gen(ast)
        if variant.get('at') and has_string(want):
            variant = dict(variant, at=False)
        text = render_variant(rng, ast, variant)
        got = subject.outcome_of_raw(
            lambda: parser.FormulaParser().parse(text, {}))
        ctx.event('parses')
        feats = features(want, set())
        if variant.get('ws') or variant.get('lead') or variant.get('trail'):
            feats.add('whitespace')
        nt = None
        if size(want) >= 3 and feats:
            vclass = (bool(variant.get('ws')), bool(variant.get('lead')),
                      bool(variant.get('trail')), bool(variant.get('at')),
                      variant.get('eq', True))
            nt = (want, vclass)
        ctx.case(nt)
        tags = set()
        if variant.get('trail'):
            tags.add('trailing_blank')
        if any_string_starting_colon(want):
            tags.add('string_starts_with_colon')
        if got[0] == 'raised':
            ctx.fail(f'parse({text!r}) raised {got[1]}',
                     {'formula': text, 'expected_tree': want,
                      'observed': got[1], 'features': sorted(tags)},
                     kf=classify(tags, got), monitor='parse-tree',
                     group='raise:' + got[1][:20] + ':'.join(sorted(tags)))
            return
        have = fold_pct(canon_lib(got[1]))
        if ctx.want_sample() and rng.random() < 0.02:
            ctx.sample({'formula': text, 'tree': repr(have)[:600]})
        if not same_tree(have, want):
            ctx.fail(f'parse({text!r}) gave {repr(have)[:300]}, the text '
                     f'denotes {repr(want)[:300]}',
                     {'formula': text, 'expected_tree': want,
                      'observed_tree': have, 'features': sorted(tags)},
                     kf=classify(tags, got), monitor='parse-tree',
                     group='tree:' + kind + ':'.join(sorted(tags)))
            return
        # somebody else in the process tokenizes with tokenize_range=True (a
        # documented option): no influence on ordinary parses that follow
        if rng.random() < 0.02:
            subject.outcome_of_raw(lambda: parser.FormulaParser().tokenize(
                '=SUM(A1:B2)+C3', tokenize_range=True))
            ctx.event('tokenize_range_calls')
            got_t = subject.outcome_of_raw(
                lambda: parser.FormulaParser().parse(text, {}))
            have_t = fold_pct(canon_lib(got_t[1])) if got_t[0] == 'value' \
                else None
            if have_t is None or not same_tree(have_t, want):
                ctx.fail(f'after a tokenize(..., tokenize_range=True) call in '
                         f'the same process, parse({text!r}) gives '
                         f'{repr(have_t)[:300] if have_t else got_t[1]}',
                         {'formula': text, 'expected_tree': want,
                          'observed': repr(have_t)[:600] if have_t
                          else got_t[1]},
                         monitor='parse-tree', group='after-tokenize-range')
                return
        # ONE parser object used for many formulas, some of them rejected
        # (an unclosed parenthesis raises): what it rejected must not show in
        # what it parses next
        if self.shared is None:
            self.shared = parser.FormulaParser()
        if rng.random() < 0.05:
            bad = rng.choice(['=SUM(1', '=2*(A1+1', '=IF(A1,(2,3)', '=((1',
                              '=SUM(1,2))', '="abc', '=1+'])
            subject.outcome_of_raw(lambda: self.shared.parse(bad, {}))
            ctx.event('rejected_formulas_fed')
        got_s = subject.outcome_of_raw(lambda: self.shared.parse(text, {}))
        ctx.event('parses_on_reused_parser')
        have_s = fold_pct(canon_lib(got_s[1])) if got_s[0] == 'value' \
            else None
        if have_s is None or not same_tree(have_s, want):
            ctx.fail(f'a FormulaParser object used for other formulas before '
                     f'(some rejected) parses {text!r} to '
                     f'{repr(have_s)[:300] if have_s else got_s[1]}, a fresh '
                     f'one to the tree the text denotes',
                     {'formula': text, 'expected_tree': want,
                      'observed': repr(have_s)[:600] if have_s else got_s[1]},
                     monitor='parse-tree', group='reused-parser:' + (
                         'raise' if have_s is None else 'tree'))
            self.shared = None
            return
        # the workbook may define names; a string literal that happens to be
        # spelt like one of them is still that string
        strings = strings_of(want, [])
        if strings:
            # (only spellings a defined name can have and that the formula
            # does not also use as a reference, constant or function name)
            names = {t: 'Sheet9!$Z$99' for t in strings
                     if re.fullmatch(r'[A-Za-z_]{2,}', t)
                     and t.upper() not in ('TRUE', 'FALSE')
                     and not re.search(r'(?<![A-Za-z_"])' + re.escape(t)
                                       + r'(?![A-Za-z_"])',
                                       re.sub(r'"(?:[^"]|"")*"', '""', text))}
            names['Rate'] = 'Sheet1!$B$1'
            got_n = subject.outcome_of_raw(
                lambda: parser.FormulaParser().parse(text, names))
            ctx.event('parses_with_defined_names')
            have_n = fold_pct(canon_lib(got_n[1])) \
                if got_n[0] == 'value' else None
            if have_n is None or not same_tree(have_n, want):
                ctx.fail(f'parse({text!r}, defined names {sorted(names)[:4]}) '
                         f'gave {repr(have_n)[:300] if have_n else got_n[1]}'
                         f', the text denotes {repr(want)[:300]}',
                         {'formula': text, 'defined_names': names,
                          'expected_tree': want,
                          'observed': repr(have_n)[:600] if have_n
                          else got_n[1]},
                         monitor='parse-tree', group='names:' + kind)
                return
        # string contents seen by the parser (delimiter coverage)
        self.note_delims(have)
        # token stream sanity (diagnostic monitors that also decide: an
        # 'unknown' token on well-formed input is a violation)
        if not hasattr(tokenizer, 'ExcelParser') or \
                not hasattr(xltypes, 'XLFormula'):
            return          # internals renamed: the parse tree decided already
        toks = subject.outcome_of_raw(
            lambda: tokenizer.ExcelParser().getTokens(text).items)
        ctx.event('token_streams')
        if toks[0] == 'value':
            unknown = [t for t in toks[1] if t.ttype == 'unknown']
            if unknown:
                ctx.fail(f'getTokens({text!r}) produced unknown tokens '
                         f'{unknown[:3]}', {'formula': text},
                         monitor='token-stream')
        # XLFormula terms = the written references
        fm = subject.outcome_of_raw(
            lambda: xltypes.XLFormula(text.strip(), 'Home'))
        ctx.event('terms_checked')
        if fm[0] == 'raised':
            ctx.fail(f'XLFormula({text!r}) raised {fm[1]}',
                     {'formula': text}, kf=classify(tags, fm),
                     monitor='formula-terms')
        else:
            exp = []
            for r in refs_of(want, []):
                s = r[1] if r[1] is not None else 'Home'
                exp.append((r[0], s) + tuple(r[2:]))
            have_terms = []
            for t in fm[1].terms:
                c = canon_addr(t)
                if c not in have_terms:
                    have_terms.append(c)
            if sorted(have_terms) != sorted(exp):
                ctx.fail(f'XLFormula({text!r}).terms = {fm[1].terms}, written '
                         f'references are {exp}', {'formula': text,
                                                   'terms': fm[1].terms,
                                                   'expected': exp},
                         monitor='formula-terms')

    def note_delims(self, c):
        if c[0] == 'str':
            for ch in c[1]:
                if ch in DELIMS:
                    self.delims_seen.add(ch)
        elif c[0] == 'bin':
            self.note_delims(c[2])
            self.note_delims(c[3])
        elif c[0] == 'neg':
            self.note_delims(c[1])
        elif c[0] == 'call':
            for x in c[2]:
                self.note_delims(x)


def any_string_starting_colon(c):
    if c[0] == 'str':
        return c[1].startswith(':') or ':OFFSET' in c[1] or ':INDEX' in c[1]
    if c[0] == 'bin':
        return any_string_starting_colon(c[2]) or \
            any_string_starting_colon(c[3])
    if c[0] == 'neg':
        return any_string_starting_colon(c[1])
    if c[0] == 'call':
        return any(any_string_starting_colon(x) for x in c[2])
    return False


def classify(tags, got):
    return None


def run(ctx):
    rng = ctx.rng
    R = Runner(ctx)
    sh, n = ctx.shard, ctx.nshards
    thorough = ctx.tier == 'thorough'

    # ---- long formulas (below Excel's 8192 characters): hundreds of chained
    # operators at one level, hundreds of arguments, deep nesting ---------------
    if sh in (0, 1, 2) or thorough:
        from xlcalculator import parser as _parser
        jobs = []
        for n_terms, term, op in ((300, 'A{}', '+'), (1200, 'A{}', '+'),
                                  (2500, '1', '&'), (1500, 'B{}', '*')):
            text = '=' + op.join(term.format(i + 1) for i in range(n_terms))
            jobs.append(('chain', text, n_terms, op))
        jobs.append(('args', '=SUM(' + ','.join(f'A{i + 1}' for i in
                                                range(250)) + ')', 250, None))
        nest = '1'
        for _ in range(60):
            nest = f'SUM({nest},1)'
        jobs.append(('nest', '=' + nest, 60, None))
        for kind, text, count, op in jobs:
            assert len(text) < 8192, len(text)
            got = subject.outcome_of_raw(
                lambda: _parser.FormulaParser().parse(text, {}))
            ctx.event('long_formula_parses')
            ctx.case(('long-formula', kind, count))
            bad = None
            if got[0] != 'value':
                bad = f'raised {got[1][:120]}'
            elif kind == 'chain':
                # a left-leaning chain: walk it down without recursion
                node, seen_ops = got[1], 0
                while getattr(node, 'ttype', '') == 'operator-infix':
                    if node.tvalue != op or getattr(
                            node.right, 'ttype', '') != 'operand':
                        bad = f'unexpected node at operator {seen_ops}'
                        break
                    seen_ops += 1
                    node = node.left
                if bad is None and seen_ops != count - 1:
                    bad = f'{seen_ops} operators in the tree, {count - 1} ' \
                        f'written'
            elif kind == 'args':
                if len(got[1].args or []) != count:
                    bad = f'{len(got[1].args or [])} arguments in the tree'
            if bad:
                ctx.fail(f'parse of a {len(text)}-character formula ({kind}, '
                         f'{count}): {bad}',
                         {'formula': text[:200] + ' ...', 'length': len(text),
                          'kind': kind, 'count': count},
                         monitor='parse-tree', group='long-formula:' + kind)

    # ---- one workbook with formulas that differ only in the blanks INSIDE a
    # string literal or a quoted sheet name (layout between tokens is free, the
    # characters of a literal are not) -----------------------------------------
    if sh in (3, 4) or thorough:
        cells = {
            "My Sheet!A1": 5, "My  Sheet!A1": 7, "Sheet1!A1": 1,
            "Sheet1!B1": '=LEN("a b")', "Sheet1!B2": '=LEN("a  b")',
            "Sheet1!B3": '=LEN("a\tb")', "Sheet1!B4": '=LEN("a\nb")',
            "Sheet1!B5": '="yes "&"|"', "Sheet1!B6": '="yes   "&"|"',
            "Sheet1!B7": "='My Sheet'!A1+0", "Sheet1!B8": "='My  Sheet'!A1+0",
            "Sheet1!B9": '=LEN( "a b" )', "Sheet1!B10": '=LEN("a   b")',
        }
        expect = {'B1': ('num', 3.0), 'B2': ('num', 4.0), 'B3': ('num', 3.0),
                  'B4': ('num', 3.0), 'B5': ('text', 'yes |'),
                  'B6': ('text', 'yes   |'), 'B7': ('num', 5.0),
                  'B8': ('num', 7.0), 'B9': ('num', 3.0), 'B10': ('num', 5.0)}
        from xlcalculator import Evaluator
        try:
            ev = Evaluator(subject.compile_dict(cells))
            outs = {a: subject.outcome_of(lambda a=a: ev.evaluate(
                'Sheet1!' + a)) for a in expect}
        except Exception as e:  # noqa
            outs = {a: ('raised', repr(e)[:200]) for a in expect}
        for a, want in expect.items():
            ctx.event('near_identical_formula_cases')
            ctx.case(('near-identical', a))
            if outs[a] != ('value', want):
                ctx.fail(f'workbook with formulas differing only inside '
                         f'literals: {cells["Sheet1!" + a]!r} -> {outs[a]}, '
                         f'expected {want}',
                         {'cells': cells, 'cell': a, 'observed': outs[a]},
                         monitor='parse-tree', group='near-identical')

    # ---- exhaustive delimiter block ----------------------------------------
    contexts = [
        lambda s: s,
        lambda s: ('bin', '&', ('ref', None, 1, 1, False, False), s),
        lambda s: ('bin', '&', s, ('ref', None, 2, 1, False, False)),
        lambda s: ('call', 'CONCAT', [('lit', 1, '1'), s, ('lit', 2, '2')]),
        lambda s: ('call', 'IF', [('bin', '=', ('ref', 'My Sheet', 1, 1,
                                                True, True), s), s,
                                  str_lit('no')]),
        lambda s: ('par', ('bin', '=', s, s)),
    ]
    idx = 0
    for d in DELIMS:
        for shape in ('only', 'first', 'last', 'middle', 'double'):
            s = {'only': d, 'first': d + 'ab', 'last': 'ab' + d,
                 'middle': 'a' + d + 'b', 'double': d + d}[shape]
            for ci, mk in enumerate(contexts):
                idx += 1
                if idx % n != sh:
                    continue
                for variant in ({}, {'ws': True}, {'eq': False}):
                    R.one(mk(str_lit(s)), variant, 'delimiter-block')
    ctx.block('14 delimiters x 5 positions x 6 contexts x 3 renderings',
              14 * 5 * 6 * 3 // n)

    # ---- strings that look like other tokens ---------------------------------
    lookalikes = ['TRUE', 'FALSE', 'true', 'True', 'A1', '$A$1', 'Sheet1!A1',
                  'A1:B2', '1', '1.5', '50%', '1E+3', '1e3', '#N/A', '#REF!',
                  '#DIV/0!', 'SUM(', 'SUM(1,2)', '@SUM', '_xlfn.CONCAT', '-',
                  '+', '=', '<>', '>=', '&', '^', ' ', '', '  ', '\n', 'None',
                  'ARRAY', 'ARRAYROW', "'My Sheet'!A1", 'TRUE ', ' FALSE',
                  'NULL', 'E1', '1E', '2E+', 'PI()', 'A:A', '1:1', '0', '-1']
    for li, text in enumerate(lookalikes):
        for ci, mk in enumerate(contexts):
            idx += 1
            if idx % n != sh:
                continue
            for variant in ({}, {'ws': True}, {'eq': False}):
                R.one(mk(str_lit(text)), variant, 'lookalike-block')
    ctx.block('token-lookalike strings x 6 contexts x 3 renderings',
              len(lookalikes) * 6 * 3 // n)

    # ---- zero-argument calls in every argument position ----------------------
    zero = [('call', 'PI', []), ('call', 'TRUE', []), ('call', 'NOW', [])]
    one = ('lit', 1, '1')
    shapes0 = []
    for z in zero:
        shapes0 += [
            ('call', 'SUM', [z]), ('call', 'SUM', [z, one]),
            ('call', 'SUM', [one, z]), ('call', 'SUM', [one, z, one]),
            ('call', 'SUM', [z, z]), ('call', 'ABS', [('neg', z)]),
            ('call', 'IF', [z, ('ref', None, 1, 1, False, False),
                            ('ref', None, 2, 1, False, False)]),
            ('call', 'SUM', [('call', 'MAX', [z]), one]),
            ('call', 'SUM', [('bin', '+', z, one), z]),
            ('bin', '*', z, ('call', 'SUM', [z, ('par', z)])),
        ]
    for si, a in enumerate(shapes0):
        idx += 1
        if idx % n != sh:
            continue
        for variant in ({}, {'ws': True}):
            R.one(a, variant, 'zero-arg-block')

    # ---- a percent sign after a parenthesised group or a call divides the whole
    # group by 100: "G%" parses like "(G)*0.01", however groups are nested inside
    # G -------------------------------------------------------------------------
    if sh in (5, 6, 7) or thorough:
        from xlcalculator import parser as _parser2
        groups = ['(A1+1)', 'SUM(A1,2)', '((A1))', '(SUM(1,2)+3)',
                  '(A1*(B1+C1))', '(1+(2))', 'SUM(1,MAX(2,3))',
                  'IF(A1>0,ABS(A1),0)', '(A1-(B1-(C1-1)))',
                  'MAX(MIN(1,2),MAX(3,MIN(4,5)))', '((1)+(2))',
                  'SUM((A1),(B1+(C1)))', '(2*(3+(4*(5+6))))',
                  'ROUND(SUM(A1:A3)/(1+(B1)),2)', '(-(A1+(B1)))']
        shells = ['={g}%', '=5+{g}%', '={g}%*2', '=-{g}%', '=SUM(1,{g}%)',
                  '={g}%+{g}%', '=IF({g}%>0,{g}%,0)']
        for g in groups:
            for shell in shells:
                a = shell.format(g=g + '%')[0:0] or shell.replace(
                    '{g}%', g + '%')
                b = shell.replace('{g}%', '(' + g + '*0.01)')
                ta = subject.outcome_of_raw(
                    lambda: _parser2.FormulaParser().parse(a, {}))
                tb = subject.outcome_of_raw(
                    lambda: _parser2.FormulaParser().parse(b, {}))
                ctx.event('parses', 2)
                ctx.event('postfix_percent_group_parses')
                ctx.case(('group-percent', g, shell))
                if ta[0] != 'value' or tb[0] != 'value':
                    if ta[0] != tb[0]:
                        ctx.fail(f'parse({a!r}) -> {str(ta)[:120]}, but '
                                 f'parse({b!r}) -> {str(tb)[:120]}',
                                 {'formula': a, 'spelt_out': b},
                                 monitor='parse-tree',
                                 group='group-percent:raise')
                    continue
                ha, hb = fold_pct(canon_lib(ta[1])), fold_pct(canon_lib(tb[1]))
                if not same_tree(ha, hb):
                    ctx.fail(f'parse({a!r}) gave {repr(ha)[:260]}, the spelt-'
                             f'out form {b!r} gives {repr(hb)[:260]}',
                             {'formula': a, 'spelt_out': b,
                              'tree': repr(ha)[:600],
                              'spelt_out_tree': repr(hb)[:600]},
                             monitor='parse-tree', group='group-percent:tree')

    # ---- sampled ASTs ---------------------------------------------------------
    count = (300000 if thorough else 6000) // n
    variants = [
        {}, {'ws': True}, {'eq': False}, {'at': True},
        {'ws': True, 'lead': ' '}, {'trail': ' '}, {'trail': '\n'},
        {'lead': '\n ', 'ws': True, 'trail': '  '}, {'after_eq': ' '},
        # blanks / line breaks before the "=" AND directly after it
        {'lead': ' ', 'after_eq': ' '}, {'lead': '\n', 'after_eq': '\n'},
        {'lead': '  ', 'after_eq': '  ', 'ws': True},
        {'lead': ' ', 'after_eq': ' ', 'trail': ' '},
    ]
    for i in range(count):
        hostile = rng.random() < 0.5
        ast = rand_ast(rng, rng.randint(1, 4), hostile)
        if size(canon_gen(ast)) > 40:
            continue
        R.one(ast, {}, 'sampled')
        for v in rng.sample(variants[1:], 3 if thorough else 2):
            R.one(ast, v, 'sampled-variant')
    ctx.data['delims'] = sorted(R.delims_seen)


def offline(merged, ctx):
    d = set()
    for x in merged['data']:
        d.update(x.get('delims', []))
    merged['counters']['delimiters_in_strings'] = len(d)
