"""C17 — text functions agree with 1-based string reference semantics.

Events: every call of the thirteen text functions through xl.FUNCTIONS and,
for a sample, Evaluator.evaluate of =FUNC("...",...); the five identities are
evaluated as formulas on the observed values.
Oracle: Python slicing reference with the stated clipping and error rules.
"""
import itertools

from vlib import monitors, subject

PROPERTY = 'C17'
RULE = ('texts over {a, b, A, blank, ", e-acute, cyrillic zhe, ?, U+1D11E} exhaustively to '
        'length 3 (quick) / 4 (thorough), sampled to length 300; all '
        'positions and counts from -2 to len+3; replacement and search texts; '
        'numbers and booleans passed as text; LEN, LEFT, RIGHT, MID, FIND, '
        'REPLACE, UPPER, LOWER, TRIM, EXACT, CONCAT, CONCATENATE, & and the '
        'five identities; numbers with long decimal forms (1/3, 0.1+0.2): '
        'every function sees one and the same text.  distinct non-trivial = distinct (function, '
        'position class, count class, text class, outcome class)')
ASSUMPTIONS = [
    'TRIM removes all U+0020 blanks except single blanks between words (the '
    "operation Excel documents and the function's own docstring quotes)",
    'non-ASCII letters restricted to 1:1 case mappings',
    'error outcomes: any Excel error value is accepted where the statement '
    'says "an error value"',
]
FLOORS = {'library_calls': 20000, 'formula_calls': 300,
          'identity_checks': 200, 'functions_seen': 13,
          'non_text_arguments': 50, 'text_form_views': 100,
          'blank_count_cases': 40, 'texts_spelt_like_names': 300,
          'long_concatenation_chains': 40, 'case_folding_letters': 60,
          'apostrophe_literal_cases': 60}
ANCHOR_FUNCS = {'xlcalculator/xlfunctions/text.py': [
    'LEN', 'LEFT', 'RIGHT', 'MID', 'FIND', 'REPLACE', 'UPPER', 'LOWER',
    'TRIM', 'EXACT', 'CONCAT', 'CONCATENATE']}
TIMEOUT = {'quick': 600, 'thorough': 3000}

ALPHA = ['a', 'b', 'A', ' ', '"', 'é', 'ж', '?', '𝄞']
ERR = 'error'


def shards(tier):
    return 16


def tform(v, quirk=False):
    if isinstance(v, bool):
        if quirk:
            return 'True' if v else 'False'
        return 'TRUE' if v else 'FALSE'
    if isinstance(v, int):
        return str(v)
    if isinstance(v, float):
        if v.is_integer():
            return repr(v) if quirk else str(int(v))
        return repr(v)
    return v


# -- reference ---------------------------------------------------------------

def r_left(s, n=1):
    return ERR if n < 0 else s[:n]


def r_right(s, n=1):
    if n < 0:
        return ERR
    return s[len(s) - min(n, len(s)):]


def r_mid(s, p, k):
    if p < 1 or k < 0:
        return ERR
    return s[p - 1:p - 1 + k]


def r_find(t, s, p=1):
    if p < 1 or p > len(s) + 1:
        return ERR
    i = s.find(t, p - 1)
    return ERR if i < 0 else i + 1


def r_replace(s, p, k, t):
    if p < 1 or k < 0:
        return ERR
    return s[:p - 1] + t + s[p - 1 + k:]


def r_trim(s):
    return ' '.join(w for w in s.split(' ') if w)


REF = {
    'LEN': lambda s: len(s), 'LEFT': r_left, 'RIGHT': r_right, 'MID': r_mid,
    'FIND': r_find, 'REPLACE': r_replace, 'UPPER': lambda s: s.upper(),
    'LOWER': lambda s: s.lower(), 'TRIM': r_trim,
    'EXACT': lambda a, b: a == b,
    'CONCAT': lambda *a: ''.join(a), 'CONCATENATE': lambda *a: ''.join(a),
}
TEXT_POS = {'LEN': [0], 'LEFT': [0], 'RIGHT': [0], 'MID': [0],
            'FIND': [0, 1], 'REPLACE': [0, 3], 'UPPER': [0], 'LOWER': [0],
            'TRIM': [0], 'EXACT': [0, 1], 'CONCAT': 'all',
            'CONCATENATE': 'all'}


def ref_call(fname, args, quirk=False):
    tp = TEXT_POS[fname]
    conv = []
    for i, a in enumerate(args):
        if tp == 'all' or i in tp:
            conv.append(tform(a, quirk))
        else:
            conv.append(a)
    return REF[fname](*conv)


def to_want(r):
    if r == ERR:
        return ERR
    if isinstance(r, bool):
        return ('bool', r)
    if isinstance(r, int):
        return ('num', float(r))
    return ('text', r)


def pos_class(p, n):
    if p < 1:
        return 'below1'
    if p <= n:
        return 'inside'
    return 'end+1' if p == n + 1 else 'beyond'


def cnt_class(k, n):
    if k < 0:
        return 'neg'
    if k == 0:
        return 'zero'
    return 'within' if k <= n else 'beyond'


def text_class(s):
    if not isinstance(s, str):
        return type(s).__name__
    c = []
    if s == '':
        return 'empty'
    if ' ' in s:
        c.append('blank')
    if '"' in s:
        c.append('quote')
    if any(ord(ch) > 127 for ch in s):
        c.append('nonascii')
    if len(set(s)) < len(s):
        c.append('repeat')
    return '+'.join(c) or 'plain'


class Runner:
    def __init__(self, ctx):
        self.ctx = ctx
        from xlcalculator.xlfunctions import xl
        self.F = xl.FUNCTIONS
        self.q = []
        self.seen = set()

    def one(self, fname, args, nt, formula=False):
        ctx = self.ctx
        want = to_want(ref_call(fname, args))
        f = self.F.get(fname)
        self.seen.add(fname)
        got = monitors.call_outcome(f, *args) if f else (
            'raised', 'KeyError: not registered')
        ctx.event('library_calls')
        if any(not isinstance(a, str) for i, a in enumerate(args)
               if TEXT_POS[fname] == 'all' or i in TEXT_POS[fname]):
            ctx.event('non_text_arguments')
        self.judge(fname, args, want, got, nt, 'lib')
        if formula:
            self.q.append((fname, args, want, nt))
            if len(self.q) >= 300:
                self.flush()

    def judge(self, fname, args, want, got, nt, via):
        ctx = self.ctx
        ctx.case(nt + (via,) if nt else None)
        if want == ERR:
            ok = got[0] == 'value' and got[1][0] == 'err'
        else:
            ok = got == ('value', want)
        if ctx.want_sample() and ctx.rng.random() < 0.0005:
            ctx.sample({'call': f'{fname}{tuple(args)!r}', 'via': via,
                        'observed': got, 'reference': want})
        if not ok:
            kf = None
            q = to_want(ref_call(fname, args, quirk=True))
            if q != want and got == ('value', q):
                if any(isinstance(a, bool) for a in args):
                    kf = 'KF-C08-01'
                else:
                    kf = 'KF-C08-02'
            ctx.fail(f'{fname}{tuple(args)!r} [{via}] observed {got}, '
                     f'reference {want}',
                     {'function': fname, 'args': [repr(a) for a in args],
                      'via': via, 'observed': got, 'reference': want},
                     kf=kf, monitor='string-reference',
                     group=f'{fname}:{via}:{nt[1:3] if nt else ""}:'
                           f'{got[0]}:{got[1][0] if got[0] == "value" else ""}')

    def flush(self):
        q, self.q = self.q, []
        if not q:
            return
        texts = []
        for fname, args, want, nt in q:
            parts = []
            for a in args:
                if isinstance(a, (int, float)) and not isinstance(a, bool) \
                        and a < 0:
                    parts.append('-' + subject.lit(-a))
                else:
                    parts.append(subject.lit(a))
            texts.append(f'={fname}(' + ','.join(parts) + ')')
        outs = subject.eval_batch(texts)
        for (fname, args, want, nt), got in zip(q, outs):
            self.ctx.event('formula_calls')
            self.judge(fname, args, want, got, nt, 'formula')


def run(ctx):
    rng = ctx.rng
    R = Runner(ctx)
    thorough = ctx.tier == 'thorough'
    maxlen = 4 if thorough else 3
    texts = ['']
    for L in range(1, maxlen + 1):
        texts += [''.join(t) for t in itertools.product(ALPHA, repeat=L)]
    mine = [t for i, t in enumerate(texts) if i % ctx.nshards == ctx.shard]
    # sampled longer texts
    for _ in range((4000 if thorough else 300) // ctx.nshards):
        L = rng.choice([5, 6, 8, 12, 30, 300])
        mine.append(''.join(rng.choice(ALPHA + ['a', 'b', ' ']) for _ in
                            range(L)))
    repl = ['', 'X', 'ab', ' "']
    finds = ['a', 'b', 'A', 'ab', ' ', '', 'ba', 'é', 'aa', '?', '*', '~',
             'a?', '~a', '?a', '𝄞', 'a*']
    for s in mine:
        n = len(s)
        tc = text_class(s)
        fm = rng.random() < 0.04
        rangep = list(range(-2, min(n, 6) + 4)) + ([n, n + 1, n + 3]
                                                   if n > 6 else [])
        R.one('LEN', (s,), ('LEN', tc), fm)
        for f in ('UPPER', 'LOWER', 'TRIM'):
            R.one(f, (s,), (f, tc), fm)
        R.one('LEFT', (s,), ('LEFT', 'default', tc))
        R.one('RIGHT', (s,), ('RIGHT', 'default', tc))
        for k in rangep:
            R.one('LEFT', (s, k), ('LEFT', cnt_class(k, n), tc), fm)
            R.one('RIGHT', (s, k), ('RIGHT', cnt_class(k, n), tc), fm)
        ks = rangep if n <= 3 else rng.sample(rangep, min(len(rangep), 5))
        for p in rangep:
            for k in ks:
                R.one('MID', (s, p, k),
                      ('MID', pos_class(p, n), cnt_class(k, n), tc),
                      fm and rng.random() < 0.2)
                t = rng.choice(repl)
                R.one('REPLACE', (s, p, k, t),
                      ('REPLACE', pos_class(p, n), cnt_class(k, n), tc,
                       t == ''), fm and rng.random() < 0.2)
        for t in (finds if n <= 3 else rng.sample(finds, 4)):
            R.one('FIND', (t, s), ('FIND', 'default', t in s, tc), fm)
            for p in (rangep if n <= 3 else rng.sample(rangep, 4)):
                R.one('FIND', (t, s, p),
                      ('FIND', pos_class(p, n), t in s, t == '', tc),
                      fm and rng.random() < 0.3)
        o = rng.choice(mine)
        R.one('EXACT', (s, o), ('EXACT', s == o, s.lower() == o.lower()), fm)
        R.one('EXACT', (s, s.upper()), ('EXACT', s == s.upper(), True), fm)
        R.one('EXACT', (s, s), ('EXACT', True, True))
        parts = [s, o, rng.choice(mine)][:rng.randint(1, 3)]
        R.one('CONCAT', tuple(parts), ('CONCAT', len(parts), tc), fm)
        R.one('CONCATENATE', tuple(parts), ('CONCATENATE', len(parts), tc),
              fm)
    # TRIM: only the blank U+0020 is a space
    if ctx.shard == 0 or thorough:
        for t in ('a\tb', 'abc\n', '\ta', 'a\u00a0b', '\u00a0a\u00a0',
                  'a\u3000b', ' a\t b ', 'a \n b', '\r\n', 'a\x0bb',
                  ' \t ', 'x\u2003y'):
            R.one('TRIM', (t,), ('TRIM', 'other-whitespace', repr(t)), True)
            R.one('LEN', (t,), ('LEN', 'other-whitespace', repr(t)))
    # numbers and booleans passed as text
    nontext = [123, 0, -5, 12.5, 0.25, 2.0, -3.0, 1e3, True, False, 100000]
    for v in nontext:
        if ctx.shard != 0 and not thorough:
            break
        for f in ('LEN', 'UPPER', 'LOWER', 'TRIM'):
            R.one(f, (v,), (f, 'nontext', repr(v)), True)
        for k in (0, 1, 2, 5):
            R.one('LEFT', (v, k), ('LEFT', 'nontext', repr(v), k), True)
            R.one('RIGHT', (v, k), ('RIGHT', 'nontext', repr(v), k), True)
        R.one('MID', (v, 2, 2), ('MID', 'nontext', repr(v)), True)
        R.one('CONCAT', (v, 'x', v), ('CONCAT', 'nontext', repr(v)), True)
        R.one('CONCATENATE', ('x', v), ('CONCATENATE', 'nontext', repr(v)),
              True)
        R.one('EXACT', (v, tform(v)), ('EXACT', 'nontext', repr(v)), True)
        R.one('FIND', (1, v), ('FIND', 'nontext', repr(v)), True)
        R.one('REPLACE', (v, 1, 1, 9), ('REPLACE', 'nontext', repr(v)), True)
    R.flush()

    # ---- a blank where a count or position is expected counts as 0 (C08), it
    # is not "argument omitted"; canonically equivalent spellings of a letter
    # are different texts -----------------------------------------------------
    if ctx.shard in (2, 3) or thorough:
        from xlcalculator.xlfunctions import func_xltypes as T_
        for s_ in ('abc', 'a', '', 'héllo 𝄞'):
            for blank in (None, T_.BLANK):
                for fname, zero_args, blank_args in (
                        ('LEFT', (s_, 0), (s_, blank)),
                        ('RIGHT', (s_, 0), (s_, blank)),
                        ('MID', (s_, 1, 0), (s_, 1, blank)),
                        ('FIND', ('a', s_, 0), ('a', s_, blank)),
                        ('REPLACE', (s_, 1, 0, 'X'), (s_, 1, blank, 'X'))):
                    want = to_want(ref_call(fname, zero_args))
                    got = monitors.call_outcome(R.F[fname], *blank_args)
                    ctx.event('library_calls')
                    ctx.event('blank_count_cases')
                    ctx.case((fname, 'blank-count', text_class(s_)))
                    ok = (got[0] == 'value' and got[1][0] == 'err') \
                        if want == ERR else got == ('value', want)
                    if not ok:
                        shown = tuple('<blank>' if a is blank else a
                                      for a in blank_args)
                        ctx.fail(f'{fname}{shown!r} observed {got}, reference '
                                 f'{want} (a blank count or position is 0)',
                                 {'function': fname,
                                  'args': [repr(a) for a in shown],
                                  'observed': got, 'reference': want},
                                 monitor='string-reference',
                                 group=f'blank-count:{fname}')
        forms3 = {'=LEFT(A1,Z9)': ('text', ''), '=RIGHT(A1,Z9)': ('text', ''),
                  '=MID(A1,2,Z9)': ('text', ''),
                  '=LEFT(A1,Z9)&RIGHT(A1,LEN(A1)-Z9)=A1': ('bool', True),
                  '=ISERROR(FIND("a",A1,Z9))': ('bool', True),
                  '=REPLACE(A1,2,Z9,"X")': ('text', 'aXbc')}
        outs3 = subject.eval_batch(list(forms3), {'A1': 'abc'})
        for (text, want), got in zip(forms3.items(), outs3):
            ctx.event('formula_calls')
            ctx.event('blank_count_cases')
            ctx.case(('blank-count-formula', text))
            if got != ('value', want):
                ctx.fail(f'{text} with A1="abc" and Z9 empty: observed {got}, '
                         f'reference {want} (a blank count is 0)',
                         {'formula': text, 'cells': {'A1': 'abc'},
                          'observed': got, 'reference': want},
                         monitor='string-reference', group='blank-count')
        for a_, b_ in (('\u00e9', 'e\u0301'), ('\u212b', '\u00c5'),
                       ('\uac00', '\u1100\u1161'), ('a\u0301\u0323',
                                                      'a\u0323\u0301')):
            R.one('EXACT', (a_, b_), ('EXACT', 'canonically-equivalent',
                                      repr(a_)), True)
            R.one('LEN', (a_,), ('LEN', 'combining', repr(a_)))
            R.one('LEN', (b_,), ('LEN', 'combining', repr(b_)))
        R.flush()

    # ---- one text form per number ------------------------------------------------
    # For numbers whose shortest decimal form is long (1/3, 0.1+0.2, ...) the
    # statement does not say WHICH text form it is (15 or 17 significant
    # digits), but every function converts "to their text form": all functions
    # must see the same text, its length must be what LEN reports, and it must
    # read back as the number.
    if ctx.shard in (0, 1) or thorough:
        longs = [1 / 3, 2 / 3, 0.1 + 0.2, 0.7 * 3, 100 / 7, -1 / 7,
                 1234.5678901234567, 1e-7 / 3, 2 ** 0.5, 1e15 / 7]
        if thorough:
            longs += [rng.uniform(-1000, 1000) / 7 for _ in range(40)]
        F = R.F
        for v in longs:
            views = {
                'CONCAT': (F['CONCAT'], (v,)),
                'CONCATENATE': (F['CONCATENATE'], (v,)),
                '&""': (F['CONCAT'], (v, '')),
                'LEFT(,99)': (F['LEFT'], (v, 99)),
                'RIGHT(,99)': (F['RIGHT'], (v, 99)),
                'MID(,1,99)': (F['MID'], (v, 1, 99)),
                'LOWER': (F['LOWER'], (v,)),
                'TRIM': (F['TRIM'], (v,)),
                'REPLACE(,1,0,"")': (F['REPLACE'], (v, 1, 0, '')),
            }
            seen = {k: monitors.call_outcome(f, *a)
                    for k, (f, a) in views.items()}
            ln = monitors.call_outcome(F['LEN'], v)
            ctx.event('text_form_views', len(seen) + 1)
            ctx.case(('text-form', repr(v)))
            forms_ = {g for g in seen.values()}
            bad = []
            if len(forms_) != 1:
                bad.append(f'the functions see different texts: {seen}')
            else:
                g = next(iter(forms_))
                if g[0] != 'value' or g[1][0] != 'text':
                    bad.append(f'no text: {g}')
                else:
                    t = g[1][1]
                    if ln != ('value', ('num', float(len(t)))):
                        bad.append(f'LEN gives {ln}, the text {t!r} has '
                                   f'{len(t)} characters')
                    try:
                        back = float(t)
                    except ValueError:
                        back = None
                    if back is None or abs(back - v) > 1e-14 * abs(v):
                        bad.append(f'the text {t!r} does not read back as '
                                   f'{v!r}')
            if bad:
                ctx.fail(f'text form of the number {v!r}: ' + '; '.join(bad),
                         {'number': repr(v), 'views': {k: str(g) for k, g in
                                                       seen.items()},
                          'LEN': ln}, monitor='one-text-form',
                         group='text-form:' + bad[0][:25])
        # the same through formulas over computed values
        exprs = ['1/3', '2/3', '0.1+0.2', '0.7*3', '100/7', 'A1/7']
        forms2, meta2 = [], []
        for e in exprs:
            forms2.append(f'=EXACT(({e})&"",CONCATENATE({e}))')
            meta2.append((e, '& vs CONCATENATE'))
            forms2.append(f'=LEN({e})=LEN(CONCATENATE({e}))')
            meta2.append((e, 'LEN vs LEN(CONCATENATE)'))
            forms2.append(f'=EXACT(LEFT({e},99),CONCAT({e}))')
            meta2.append((e, 'LEFT vs CONCAT'))
            forms2.append(f'=EXACT(RIGHT({e},99)&"",MID({e},1,99))')
            meta2.append((e, 'RIGHT vs MID'))
            forms2.append(f'=LEN(({e})&"x")=LEN({e})+1')
            meta2.append((e, 'LEN additive'))
        outs = subject.eval_batch(forms2, {'A1': 22})
        for (e, what), text, got in zip(meta2, forms2, outs):
            ctx.event('text_form_views')
            ctx.case(('text-form-formula', e, what))
            if got != ('value', ('bool', True)):
                ctx.fail(f'text form of {e} ({what}): {text} -> {got}',
                         {'formula': text, 'cells': {'A1': 22},
                          'observed': got}, monitor='one-text-form',
                         group='text-form-formula:' + what)

    # ---- the & operator and the five identities, on observed values ---------
    sample = rng.sample(mine, min(len(mine), 60 if not thorough else 400))
    forms, meta = [], []
    for s in sample:
        n = len(s)
        t = rng.choice(repl)
        o = rng.choice(sample)
        S, O, T_ = subject.lit(s), subject.lit(o), subject.lit(t)
        ks_ = range(0, n + 1) if n <= 6 else sorted(rng.sample(
            range(0, n + 1), 4))
        for k in ks_:
            forms.append(f'=LEFT({S},{k})&RIGHT({S},LEN({S})-{k})={S}')
            meta.append(('LEFT&RIGHT', s, k))
            forms.append(f'=EXACT(MID({S},1,{k}),LEFT({S},{k}))')
            meta.append(('MID=LEFT', s, k))
        forms.append(f'=LEN({S}&{O})=LEN({S})+LEN({O})')
        meta.append(('LEN-additive', s, o))
        forms.append(f'=EXACT({S}&{O},CONCAT({S},{O}))')
        meta.append(('&=CONCAT', s, o))
        ps_ = range(1, n + 2) if n <= 6 else sorted(rng.sample(
            range(1, n + 2), 4))
        for p in ps_:
            for k in (0, 1, 2):
                forms.append(
                    f'=EXACT(REPLACE({S},{p},{k},{T_}),LEFT({S},{p}-1)&{T_}'
                    f'&MID({S},{p}+{k},LEN({S})))')
                meta.append(('REPLACE-identity', s, (p, k, t)))
    for i in range(0, len(forms), 400):
        outs = subject.eval_batch(forms[i:i + 400])
        for (name, s, extra), text, got in zip(meta[i:i + 400],
                                               forms[i:i + 400], outs):
            ctx.event('identity_checks')
            ctx.case(('identity', name, text_class(s)))
            if got != ('value', ('bool', True)):
                ctx.fail(f'identity {name} fails: {text} -> {got}',
                         {'identity': name, 'formula': text,
                          'observed': got}, monitor='identities',
                         group='identity:' + name)
    # ---- lower-case letters that case FOLDING would replace (sharp s, micro
    # sign, final sigma, long s, ligatures): LOWER leaves a text that is
    # already lower-case as it is -------------------------------------------
    if ctx.shard in (4, 5) or thorough:
        lowers = ['stra\u00dfe', '5 \u00b5m', '\u03c2', '\u017ft', '\ufb01ne',
                  '\u0149', '\u1fb3', 'wei\u00df', '\u03bc\u00b5', 'ma\u00dfe \u03c2']
        forms = {}
        for t in lowers:
            assert t.lower() == t
            q = subject.lit(t)
            forms[f'=LOWER({q})'] = ('text', t)
            forms[f'=EXACT(LOWER({q}),{q})'] = ('bool', True)
            forms[f'=LEN(LOWER({q}))'] = ('num', float(len(t)))
            forms[f'=LOWER(UPPER(LOWER({q})))=LOWER(UPPER({q}))'] = \
                ('bool', True)
        outs = subject.eval_batch(list(forms))
        for (text, want), got in zip(forms.items(), outs):
            ctx.event('formula_calls')
            ctx.event('case_folding_letters')
            ctx.case(('case-folding', text))
            if got != ('value', want):
                ctx.fail(f'{text}: observed {got}, expected {want} (the text '
                         f'is lower-case already)',
                         {'formula': text, 'observed': got, 'expected': want},
                         monitor='string-semantics',
                         group='case-folding:' + text[1:6])
        for t in lowers:
            got = monitors.call_outcome(R.F['LOWER'], t)
            ctx.event('library_calls')
            ctx.event('case_folding_letters')
            if got != ('value', ('text', t)):
                ctx.fail(f'LOWER({t!r}) -> {got}; the text is lower-case '
                         f'already', {'function': 'LOWER', 'args': [t],
                                      'observed': got},
                         monitor='string-semantics', group='case-folding:lib')
    # ---- apostrophes inside a text literal are characters like any other (only
    # a doubled DOUBLE quote is an escape there) --------------------------------
    if ctx.shard in (6, 7) or thorough:
        apos = ["it''s", "''", "'", "a'''b", "''''", "x''", "''x", "O'Brien",
                "say \"hi\" ''twice''", "'Sheet 1'!A1"]
        forms = {}
        for t_ in apos:
            q = subject.lit(t_)
            forms[(f'=LEN({q})', '')] = ('num', float(len(t_)))
            forms[(f'={q}&"|"', '')] = ('text', t_ + '|')
            forms[(f'=LEFT({q},2)', '')] = ('text', t_[:2])
            forms[(f'=RIGHT({q},2)', '')] = ('text', t_[-2:])
            forms[(f'=EXACT({q},A1)', t_)] = ('bool', True)
            forms[(f'=UPPER({q})', '')] = ('text', t_.upper())
        for (text, cellv), want in forms.items():
            got = subject.eval_one(text, {'A1': cellv} if cellv else {})
            ctx.event('formula_calls')
            ctx.event('apostrophe_literal_cases')
            ctx.case(('apostrophes', text))
            if got != ('value', want):
                ctx.fail(f'{text}{" with A1 = " + repr(cellv) if cellv else ""}: '
                         f'observed {got}, expected {want}',
                         {'formula': text, 'A1': cellv, 'observed': got,
                          'expected': want}, monitor='string-semantics',
                         group='apostrophes:' + text[1:5])
    # ---- long & chains (the operator has no limit on the number of operands;
    # a formula may be 8192 characters long) ------------------------------------
    if ctx.shard in (2, 3) or thorough:
        for n_ops in (200, 254, 255, 256, 300, 520):
            pieces = [rng.choice(['a', 'B', 'cd', '7', ' ', 'é', 'xyz'])
                      for _ in range(n_ops)]
            cells = {f'A{i + 1}': p for i, p in enumerate(pieces)
                     if p != ' '}
            cells.update({f'A{i + 1}': 'q' for i, p in enumerate(pieces)
                          if p == ' '})
            pieces = [p if p != ' ' else 'q' for p in pieces]
            joined = ''.join(pieces)
            chain = '&'.join(f'A{i + 1}' for i in range(n_ops))
            half = n_ops // 2
            left = '&'.join(f'A{i + 1}' for i in range(half))
            right = '&'.join(f'A{i + 1}' for i in range(half, n_ops))
            forms = {
                f'={chain}': ('text', joined),
                f'=LEN({chain})': ('num', float(len(joined))),
                f'=({left})&({right})': ('text', joined),
                f'=RIGHT({chain},3)': ('text', joined[-3:]),
                f'=EXACT({chain},CONCAT(A1:A{n_ops}))': ('bool', True)
                if n_ops <= 254 else None,
                f'=LEN(({left})&"tail")': ('num',
                                           float(len(''.join(pieces[:half]))
                                                 + 4)),
            }
            forms = {k: v for k, v in forms.items()
                     if v is not None and len(k) < 8192}
            outs = subject.eval_batch(list(forms), cells)
            for (text, want), got in zip(forms.items(), outs):
                ctx.event('formula_calls')
                ctx.event('long_concatenation_chains')
                ctx.case(('long-&', n_ops, text[:12]))
                if got != ('value', want):
                    ctx.fail(f'{text[:60]}... ({n_ops} operands joined by &): '
                             f'observed {str(got)[:200]}, expected '
                             f'{str(want)[:120]}',
                             {'operands': n_ops, 'formula': text[:300],
                              'observed': str(got)[:400]},
                             monitor='string-semantics',
                             group=f'long-&:{got[0]}')
    # ---- a workbook with defined names: a text that happens to be SPELT like
    # one of the names (or like a cell address, a function, a sheet) is still
    # that text ----------------------------------------------------------------
    if ctx.shard in (0, 1) or thorough:
        import os
        from vlib import bootstrap, xlsxw
        from xlcalculator import Evaluator, ModelCompiler
        names_ = [('rate', 'Sheet1!$A$1'), ('label', 'Sheet1!$A$2'),
                  ('Total', 'Sheet1!$A$1:$A$3'), ('x', 'Data!$B$2'),
                  ('Data', 'Sheet1!$A$3'), ('TAX_2024', 'Data!$A$1')]
        words = [n_ for n_, _ in names_] + ['RATE', 'Label', 'A1', 'Sheet1',
                                            'Sheet1!A1', 'LEN', 'total']
        sb = xlsxw.SheetBuilder()
        sb.put_value('Sheet1', 1, 1, 0.25)
        sb.put_value('Sheet1', 1, 2, 'net')
        sb.put_value('Sheet1', 1, 3, 7)
        sb.put_value('Data', 1, 1, 19)
        sb.put_value('Data', 2, 2, 3)
        sb.names = list(names_)
        probes = []
        for w in words:
            q = subject.lit(w)
            probes += [
                (f'=LEN({q})', ('num', float(len(w)))),
                (f'=LEFT({q},3)', ('text', w[:3])),
                (f'=RIGHT({q},2)', ('text', w[-2:])),
                (f'=MID({q},2,3)', ('text', w[1:4])),
                (f'=UPPER({q})', ('text', w.upper())),
                (f'=LOWER({q})', ('text', w.lower())),
                (f'="<"&{q}&">"', ('text', '<' + w + '>')),
                (f'=CONCAT({q},"-",{q})', ('text', w + '-' + w)),
                (f'=EXACT({q},{q})', ('bool', True)),
                (f'=FIND("a",{q}&"a")', ('num', float((w + 'a').find('a')
                                                      + 1))),
                (f'=REPLACE({q},1,1,"#")', ('text', '#' + w[1:])),
                (f'=TRIM(" "&{q}&" ")', ('text', w)),
                (f'=IF({q}="zzz",1,LEN({q}))', ('num', float(len(w)))),
            ]
        # the names themselves still work next to such texts
        probes += [('=rate*4', ('num', 1.0)), ('=label&"!"', ('text', 'net!')),
                   ('=SUM(Total)', None), ('=LEN("rate")+rate',
                                           ('num', 4.25)),
                   ('=x+Data', ('num', 10.0))]
        for i, (text, _) in enumerate(probes, start=1):
            sb.put_formula('Sheet1', 5, i, text)
        path = os.path.join(bootstrap.VERIF, 'out', 'c17',
                            f'names{ctx.shard}.xlsx')
        os.makedirs(os.path.dirname(path), exist_ok=True)
        sb.write(path)
        try:
            ev = Evaluator(ModelCompiler().read_and_parse_archive(path))
            outs = [subject.outcome_of(lambda: ev.evaluate(f'Sheet1!E{i}'))
                    for i in range(1, len(probes) + 1)]
        except Exception as e:  # noqa
            outs = [('raised', repr(e)[:200])] * len(probes)
        try:
            os.remove(path)
        except OSError:
            pass
        for (text, want), got in zip(probes, outs):
            if want is None:
                continue
            ctx.event('formula_calls')
            ctx.event('texts_spelt_like_names')
            ctx.case(('spelt-like-a-name', text))
            if got != ('value', want):
                ctx.fail(f'{text} in a workbook with the defined names '
                         f'{[n_ for n_, _ in names_]}: observed {got}, '
                         f'expected {want}',
                         {'formula': text, 'defined_names': names_,
                          'observed': got, 'expected': want},
                         monitor='string-semantics',
                         group='spelt-like-a-name:' + text[:6])
    ctx.data['functions'] = sorted(R.seen)


def offline(merged, ctx):
    fs = set()
    for d in merged['data']:
        fs.update(d.get('functions', []))
    merged['counters']['functions_seen'] = len(fs) + 1       # + the & operator
