"""C16 — math and rounding functions agree with exact / IEEE reference values.

Events: every call of the registered math functions through xl.FUNCTIONS and,
for a subset, Evaluator.evaluate of =NAME(args); the result-domain contract
(icontract post-condition installed by the function-table recorder: result is
an Excel error or a FINITE number; no exception escapes).
Oracle: rounding family = exact decimal arithmetic on Decimal(repr(x)) in
Excel's direction, compared exactly after conversion to the nearest double;
elementary functions = mpmath at 50 digits, <= 8 ulp; outside the domain an
Excel error.
"""
import decimal
import math
from decimal import Decimal

from vlib import monitors, subject

PROPERTY = 'C16'
RULE = ('decimals with 1-15 significant digits x exponents -300..300 x digit '
        'counts -10..10 x all sign combinations through ROUND, ROUNDUP, '
        'ROUNDDOWN, TRUNC, INT, CEILING, FLOOR, EVEN; ties representable '
        '(x.5, x.25) and not (2.675, 1.005); elementary functions on grids + '
        'random arguments; boundary and outside-domain arguments of every '
        'function.  distinct non-trivial = distinct (function, sign class, '
        'digit count / magnitude class, tie/non-tie/boundary class, outcome '
        'class)')
ASSUMPTIONS = [
    'rounding reference: decimal module on Decimal(repr(x)) (the shortest '
    'decimal representation the statement names), precision 900',
    'elementary reference: mpmath, 50 digits; tolerance 8 ulp of the '
    'reference (numpy kernels are specified to a few ulp)',
    'outside-domain points judged: LN/LOG/LOG10 <= 0, LOG base <= 0 or = 1, '
    'SQRT < 0, ACOS/ASIN |x| > 1, ACOSH < 1, MOD/FLOOR by 0, FACT/FACTDOUBLE '
    '< 0, overflowing EXP/COSH/FACT/POWER; not judged: ATAN2(0,0), 0^0, '
    'CEILING/FLOOR with number > 0 > significance beyond "is an error"',
]
FLOORS = {'rounding_calls': 5000, 'elementary_calls': 2000,
          'domain_calls': 30, 'contract_evals': 5000, 'formula_calls': 300,
          'functions_seen': 30, 'host_decimal_context_calls': 500,
          'edge_magnitude_calls': 300, 'near_whole_result_calls': 300,
          'numpy_operand_domain_cases': 100,
          'huge_quotient_multiples': 24}
ANCHOR_FUNCS = {'xlcalculator/xlfunctions/math.py': [
    'ROUND', 'ROUNDUP', 'ROUNDDOWN', 'TRUNC', 'INT', 'CEILING', 'FLOOR',
    'EVEN', '_round', 'MOD', 'LN', 'LOG', 'LOG10', 'SQRT', 'ATAN2', 'FACT',
    'POWER', 'EXP']}
TIMEOUT = {'quick': 600, 'thorough': 3000}

# the reference works in its OWN decimal context: the subject uses the
# thread's default context and must see it untouched
REFCTX = decimal.Context(prec=900)


def in_refctx(fn):
    import functools

    @functools.wraps(fn)
    def wrapper(*a, **kw):
        with decimal.localcontext(REFCTX):
            return fn(*a, **kw)
    return wrapper


def shards(tier):
    return 16


def D(x):
    return Decimal(repr(float(x)))


def ulp(x):
    return math.ulp(x) if x != 0 else 5e-324


# -- rounding references ------------------------------------------------------

@in_refctx
def ref_round(x, d, mode):
    q = Decimal(1).scaleb(-d)
    return float((D(x) / q).to_integral_value(rounding=mode) * q)


@in_refctx
def ref_multiple(x, s, up):
    """CEILING (up) / FLOOR (down): s*ceil(x/s) / s*floor(x/s), exact"""
    q = D(x) / D(s)
    n = q.to_integral_value(rounding=decimal.ROUND_CEILING if up
                            else decimal.ROUND_FLOOR)
    return float(n * D(s))


@in_refctx
def ref_even(x):
    d = D(x)
    n = (abs(d) / 2).to_integral_value(rounding=decimal.ROUND_CEILING) * 2
    return float(-n if d < 0 else n)


ROUNDERS = {
    'ROUND': decimal.ROUND_HALF_UP, 'ROUNDUP': decimal.ROUND_UP,
    'ROUNDDOWN': decimal.ROUND_DOWN, 'TRUNC': decimal.ROUND_DOWN,
}


def gen_decimal(rng, hostile):
    if hostile and rng.random() < 0.5:
        base = rng.choice(['2.675', '1.005', '0.285', '1.15', '0.3', '0.7',
                           '2.2', '8.325', '0.5', '1.5', '2.5', '0.25',
                           '0.125', '1234.5', '0.045', '5.015', '1.45',
                           '4.35', '0.615', '9.995', '99.5', '0.05'])
        s = base
    else:
        nd = rng.randint(1, 15)
        digits = str(rng.randint(1, 9)) + ''.join(
            str(rng.randint(0, 9)) for _ in range(nd - 1))
        if rng.random() < 0.3:
            digits = digits[:-1] + '5'
        point = rng.randint(0, nd)
        s = (digits[:point] or '0') + ('.' + digits[point:]
                                       if point < nd else '')
    if rng.random() < 0.5:
        s = '-' + s
    x = float(s)
    if rng.random() < 0.12:
        y = float(f'{s}e{rng.choice([-300, -100, -20, 20, 100, 290])}')
        if math.isfinite(y) and abs(y) < 1e305 and (y == 0 or
                                                     abs(y) > 1e-305):
            x = y
    return x


class Runner:
    def __init__(self, ctx, rec):
        self.ctx = ctx
        self.rec = rec
        from xlcalculator.xlfunctions import xl
        self.F = xl.FUNCTIONS
        self.formulas = []
        self.seen = set()

    def call(self, fname, args, host=None):
        f = self.F.get(fname)
        self.seen.add(fname)
        if f is None:
            return ('raised', 'KeyError: not registered')
        if host is not None:
            # the calling thread's decimal context as a host application may
            # have set it (the reference has its own private context)
            with decimal.localcontext(host):
                return monitors.call_outcome(f, *args)
        return monitors.call_outcome(f, *args)

    def judge(self, fname, args, want, got, kind, nt, tol_ulp=0, via='lib',
              tags=()):
        ctx = self.ctx
        ctx.case(nt)
        ctx.event(kind + '_calls' if via == 'lib' else 'formula_calls')
        ok = False
        if want == 'error':
            ok = got[0] == 'value' and got[1][0] == 'err'
        elif isinstance(want, tuple) and want[0] == 'err':
            ok = got == ('value', want)
        else:
            if got[0] == 'value' and got[1][0] == 'num':
                g = got[1][1]
                if tol_ulp == 0:
                    ok = g == want
                else:
                    ok = abs(g - want) <= tol_ulp * ulp(want) or g == want
        if ctx.want_sample() and ctx.rng.random() < 0.001:
            ctx.sample({'call': f'{fname}{tuple(args)}', 'via': via,
                        'observed': got, 'reference': want})
        if not ok:
            ctx.fail(f'{fname}{tuple(args)} [{via}] observed {got}, '
                     f'reference {want}'
                     + (f' (tolerance {tol_ulp} ulp)' if tol_ulp else ''),
                     {'function': fname, 'args': list(args), 'via': via,
                      'observed': got, 'reference': want, 'tags': list(tags)},
                     kf=classify(fname, args, got, want, tags),
                     monitor='reference-value' if want != 'error'
                     else 'domain-contract',
                     group=f'{fname}:{kind}:{got[0]}:'
                           f'{got[1][0] if got[0] == "value" else got[1][:14]}'
                           f':{",".join(tags)}')

    def both(self, fname, args, want, kind, nt, tol_ulp=0, tags=(),
             formula=False):
        got = self.call(fname, args)
        self.judge(fname, args, want, got, kind, nt, tol_ulp, 'lib', tags)
        if kind == 'rounding' and self.ctx.rng.random() < 0.15:
            rng = self.ctx.rng
            host = decimal.Context(
                prec=rng.choice([5, 9, 12]),
                rounding=rng.choice([decimal.ROUND_DOWN, decimal.ROUND_UP,
                                     decimal.ROUND_HALF_EVEN]),
                traps=rng.choice([None, None, [decimal.Inexact],
                                  [decimal.Rounded]]))
            got = self.call(fname, args, host)
            self.ctx.event('host_decimal_context_calls')
            self.judge(fname, args, want, got, kind,
                       nt + ('host-context',) if nt else None, tol_ulp,
                       f'lib, caller\'s decimal context prec={host.prec} '
                       f'{host.rounding}', tags + ('host_context',))
        if formula:
            self.formulas.append((fname, args, want, kind, nt, tol_ulp, tags))
            if len(self.formulas) >= 300:
                self.flush()

    def flush(self):
        q, self.formulas = self.formulas, []
        if not q:
            return
        texts = []
        for fname, args, *_ in q:
            texts.append(f'={fname}(' + ','.join(
                subject.lit(a) if a >= 0 else '-' + subject.lit(-a)
                for a in args) + ')')
        outs = subject.eval_batch(texts)
        for (fname, args, want, kind, nt, tol, tags), got in zip(q, outs):
            self.judge(fname, args, want, got, kind,
                       nt + ('formula',) if nt else None, tol, 'formula',
                       tags)


def sign_class(x):
    return 'neg' if x < 0 else ('zero' if x == 0 else 'pos')


def mag_class(x):
    if x == 0:
        return 'zero'
    e = math.floor(math.log10(abs(x)))
    return 'tiny' if e < -20 else ('huge' if e > 20 else 'mid')


def run(ctx):
    import mpmath
    mpmath.mp.dps = 50
    rng = ctx.rng
    rec = monitors.TableRecorder(ctx, contract=True).install()
    R = Runner(ctx, rec)
    thorough = ctx.tier == 'thorough'
    n_round = (400000 if thorough else 24000) // ctx.nshards

    # ---- rounding family ---------------------------------------------------
    for i in range(n_round):
        hostile = rng.random() < 0.4
        x = gen_decimal(rng, hostile)
        d = rng.randint(-10, 10) if rng.random() < 0.6 else rng.randint(-3, 4)
        dx = D(x)
        with decimal.localcontext(REFCTX):
            try:
                sc = abs(dx).scaleb(d)
                tie = 'tie' if (sc * 2) % 1 == 0 and sc % 1 != 0 else 'plain'
            except decimal.InvalidOperation:
                tie = 'plain'
        formula_ok = mag_class(x) == 'mid' and rng.random() < 0.05
        for fname, mode in ROUNDERS.items():
            want = ref_round(x, d, mode)
            R.both(fname, (x, d), want, 'rounding',
                   (fname, sign_class(x), d, tie, mag_class(x)),
                   formula=formula_ok,
                   tags=('huge_digits',) if
                   (dx.adjusted() + d) > 25 else ())
        if rng.random() < 0.3:
            for fname, mode in (('ROUND', decimal.ROUND_HALF_UP),
                                ('TRUNC', decimal.ROUND_DOWN)):
                R.both(fname, (x,), ref_round(x, 0, mode), 'rounding',
                       (fname, sign_class(x), 'default', tie, mag_class(x)))
        if mag_class(x) != 'huge' or True:
            with decimal.localcontext(REFCTX):
                want = float(D(x).to_integral_value(
                    rounding=decimal.ROUND_FLOOR))
                whole = 'whole' if D(x) % 1 == 0 else 'frac'
            R.both('INT', (x,), want, 'rounding',
                   ('INT', sign_class(x), mag_class(x), whole),
                   formula=formula_ok)
            R.both('EVEN', (x,), ref_even(x), 'rounding',
                   ('EVEN', sign_class(x), mag_class(x), whole),
                   tags=('huge',) if mag_class(x) == 'huge' else ())
        # CEILING / FLOOR with a significance
        s = rng.choice([1, 2, 5, 10, 0.5, 0.25, 0.1, 0.2, 0.05, 3, 0.3, 7,
                        100, 0.01, 1.5])
        if rng.random() < 0.5:
            s = -s
        if mag_class(x) == 'mid' and abs(x) < 1e12:
            for fname, up in (('CEILING', True), ('FLOOR', False)):
                if x > 0 > s:
                    R.both(fname, (x, s), 'error', 'rounding',
                           (fname, 'pos-number-neg-significance'))
                    continue
                if x < 0 < s or (x < 0 and s < 0) or (x > 0 and s > 0):
                    want = ref_multiple(x, s, up)
                    with decimal.localcontext(REFCTX):
                        dy = 'dyadic' if (D(s) * 1024) % 1 == 0 \
                            else 'nondyadic'
                        mult = 'multiple' if D(x) % D(s) == 0 else 'between'
                    R.both(fname, (x, s), want, 'rounding',
                           (fname, sign_class(x), sign_class(s), dy, mult),
                           formula=formula_ok, tags=(dy,))
    # CEILING / FLOOR whose count of multiples has 40 and more digits
    if ctx.shard in (0, 1) or thorough:
        for x, s_ in ((1e40, 1), (1e41, 3), (1e300, 1), (2.5e30, 1e-15),
                      (-1e41, -10), (1e-5, 1e-300), (1.5e308, 1e-10),
                      (-1e45, 7), (9.999e39, 1), (1e39, 0.7), (3e50, 1e5),
                      (1e25, 1e-20)):
            for fname, up in (('CEILING', True), ('FLOOR', False)):
                want = ref_multiple(x, s_, up)
                R.both(fname, (x, s_), want, 'rounding',
                       (fname, 'huge-quotient', x, s_), tol_ulp=4,
                       formula=True)
                ctx.event('huge_quotient_multiples')
    for fname in ('CEILING',):
        R.both(fname, (2.5, 0), 0.0, 'rounding', (fname, 'significance-0'))
    R.both('FLOOR', (2.5, 0), ('err', '#DIV/0!'), 'domain',
           ('FLOOR', 'significance-0'))

    # ---- elementary functions ---------------------------------------------------
    mp = mpmath
    unary = {
        'ABS': (lambda x: abs(x), None),
        'SIGN': (lambda x: mp.sign(x), None),
        'SQRT': (mp.sqrt, lambda x: x >= 0),
        'EXP': (mp.exp, lambda x: x < 709),
        'LN': (mp.log, lambda x: x > 0),
        'LOG10': (mp.log10, lambda x: x > 0),
        'SIN': (mp.sin, None), 'COS': (mp.cos, None), 'TAN': (mp.tan, None),
        'ASIN': (mp.asin, lambda x: -1 <= x <= 1),
        'ACOS': (mp.acos, lambda x: -1 <= x <= 1),
        'ATAN': (mp.atan, None), 'ASINH': (mp.asinh, None),
        'ACOSH': (mp.acosh, lambda x: x >= 1),
        'COSH': (mp.cosh, lambda x: abs(x) < 709),
        'DEGREES': (mp.degrees, None), 'RADIANS': (mp.radians, None),
        'SQRTPI': (lambda x: mp.sqrt(x * mp.pi), lambda x: x >= 0),
    }
    n_el = (60000 if thorough else 3000) // ctx.nshards
    for i in range(n_el):
        kind = rng.random()
        if kind < 0.3:
            x = rng.choice([0, 0.5, 1, -1, 2, 10, 0.1, 1e-10, 100, -0.5, 3,
                            0.25, 1.0000001, 0.9999999, 700, -700, 1e6])
        elif kind < 0.7:
            x = rng.uniform(-10, 10)
        else:
            x = gen_decimal(rng, False)
        x = float(x)
        for fname, (fn, dom) in unary.items():
            if dom is not None and not dom(x):
                continue
            if fname in ('SIN', 'COS', 'TAN') and abs(x) > 1e6:
                continue      # argument reduction of huge angles: not stated
            if fname in ('EXP', 'COSH') and abs(x) > 700:
                continue
            try:
                w = fn(mp.mpf(x))
                want = float(w)
            except Exception:  # noqa
                continue
            if not math.isfinite(want):
                continue
            if fname == 'TAN' and abs(want) > 1e10:
                continue
            R.both(fname, (x,), want, 'elementary',
                   (fname, sign_class(x), mag_class(x)), tol_ulp=8,
                   formula=(mag_class(x) == 'mid' and rng.random() < 0.03))
        # binary functions
        y = float(rng.choice([2, 3, 0.5, -1, -2, 10, 1.5, 7, 0.1, -0.5]))
        if x > 0 or float(y).is_integer():
            if not (x == 0 and y <= 0):
                try:
                    w = mp.power(mp.mpf(x), mp.mpf(y))
                    want = float(w.real) if hasattr(w, 'real') else float(w)
                    if math.isfinite(want) and abs(want) < 1e300 and (
                            want != 0 or x == 0):
                        R.both('POWER', (x, y), want, 'elementary',
                               ('POWER', sign_class(x), sign_class(y),
                                mag_class(x)), tol_ulp=8)
                except Exception:  # noqa
                    pass
        if y != 0 and mag_class(x) == 'mid':
            # MOD takes the sign of its divisor: x - y*floor(x/y), exact
            # (an IEEE operation: exact on the doubles given, then rounded)
            from fractions import Fraction
            fx, fy = Fraction(x), Fraction(y)
            want = float(fx - fy * math.floor(fx / fy))
            R.both('MOD', (x, y), want, 'elementary',
                   ('MOD', sign_class(x), sign_class(y)), tol_ulp=8)
        if x > 0 and y > 0 and y != 1:
            want = float(mp.log(mp.mpf(x)) / mp.log(mp.mpf(y)))
            R.both('LOG', (x, y), want, 'elementary',
                   ('LOG', mag_class(x), y), tol_ulp=16)
        a, b = float(rng.uniform(-5, 5)), float(rng.uniform(-5, 5))
        if a != 0 or b != 0:
            # ATAN2(x_num, y_num) = atan2(y, x)
            want = float(mp.atan2(mp.mpf(b), mp.mpf(a)))
            R.both('ATAN2', (a, b), want, 'elementary',
                   ('ATAN2', sign_class(a), sign_class(b)), tol_ulp=8,
                   formula=rng.random() < 0.05)
    # ---- arguments at the edges of the double range, and next to the points
    # where a result is a whole number ------------------------------------------
    # A result beyond the largest double is outside the function's domain
    # (an error value, not an infinity); a tiny result is the correctly
    # rounded (possibly subnormal) double.
    DBL_MAX = 1.7976931348623157e308
    if ctx.shard < 4 or thorough:
        edges = [5e-324, 1e-320, 1e-310, 2.2250738585072014e-308, 1e-300,
                 1e-160, 1e154, 1.4e154, 1e300, 3.1e306, 3.2e306, 5.7e307,
                 1e308, DBL_MAX, 709.78, 709.79, 710.4, 710.5, -745.1,
                 -745.2, 88.7, 1e16, 1e22]
        edges = edges + [-v for v in edges]
        order = list(unary.items())
        rng.shuffle(order)      # huge and tiny arguments in mixed order
        for fname, (fn, dom) in order:
            xs = list(edges)
            rng.shuffle(xs)
            for x in xs:
                x = float(x)
                if dom is not None and not dom(x) and fname not in (
                        'EXP', 'COSH'):
                    continue
                if fname in ('SIN', 'COS', 'TAN') and abs(x) > 1e6:
                    continue
                try:
                    w = fn(mp.mpf(x))
                    if abs(w) > mp.mpf(DBL_MAX) * (1 + mp.mpf(2) ** -54):
                        want = 'error'
                    else:
                        want = float(w)
                except Exception:  # noqa
                    continue
                ctx.event('edge_magnitude_calls')
                R.both(fname, (x,), want,
                       'domain' if want == 'error' else 'elementary',
                       (fname, 'edge', x), tol_ulp=8,
                       tags=('edge-magnitude',))
        # next to whole-number results: base^k * (1 + d)
        for base in (2.0, 3.0, 10.0):
            for k in (-12, -3, -1, 1, 2, 3, 10, 40):
                for d in (0, 1e-9, -1e-9, 3e-10, -2e-11, 4e-13, -1e-15):
                    x = float(base ** k * (1 + d))
                    if x <= 0:
                        continue
                    want = float(mp.log(mp.mpf(x)) / mp.log(mp.mpf(base)))
                    ctx.event('near_whole_result_calls')
                    R.both('LOG', (x, base), want, 'elementary',
                           ('LOG', 'near-power', base, k, d), tol_ulp=16)
                    if base == 10.0:
                        R.both('LOG10', (x,), float(mp.log10(mp.mpf(x))),
                               'elementary', ('LOG10', 'near-power', k, d),
                               tol_ulp=8)
                        R.both('LOG', (x,), float(mp.log10(mp.mpf(x))),
                               'elementary', ('LOG', 'default-base', k, d),
                               tol_ulp=16)
        for r_ in (2.0, 3.0, 7.0, 12.0, 1e3, 1e8):
            for d in (0, 1e-9, -1e-9, 2e-12, -3e-14):
                x = float(r_ * r_ * (1 + d))
                R.both('SQRT', (x,), float(mp.sqrt(mp.mpf(x))), 'elementary',
                       ('SQRT', 'near-square', r_, d), tol_ulp=8)
                y_ = float(math.log(r_) * (1 + d))
                R.both('EXP', (y_,), float(mp.exp(mp.mpf(y_))), 'elementary',
                       ('EXP', 'near-whole', r_, d), tol_ulp=8)
        for d in (0, 1e-9, 1e-12, 1e-15, 3e-16):
            for fname in ('ASIN', 'ACOS'):
                for sgn in (1, -1):
                    x = sgn * (1 - d)
                    R.both(fname, (x,), float(unary[fname][0](mp.mpf(x))),
                           'elementary', (fname, 'near-one', sgn, d),
                           tol_ulp=8)
            x = 1 + d
            R.both('LN', (x,), float(mp.log(mp.mpf(x))), 'elementary',
                   ('LN', 'near-one', d), tol_ulp=8)
            R.both('ACOSH', (x,), float(mp.acosh(mp.mpf(x))), 'elementary',
                   ('ACOSH', 'near-one', d), tol_ulp=8)

    for x in (1.0, -1.0, 0.0):
        for y in (1.0, -1.0, 0.0):
            if x == 0 and y == 0:
                continue
            want = float(mp.atan2(mp.mpf(y), mp.mpf(x)))
            R.both('ATAN2', (x, y), want, 'elementary',
                   ('ATAN2-axis', x, y), tol_ulp=8, formula=True)
    if ctx.shard == 0:
        R.both('PI', (), math.pi, 'elementary', ('PI',))
        for nfact in range(0, 171):
            R.both('FACT', (float(nfact),), float(math.factorial(nfact)),
                   'elementary', ('FACT', nfact), tol_ulp=2)
        for nfact in range(0, 60):
            want = 1
            k = nfact
            while k > 1:
                want *= k
                k -= 2
            R.both('FACTDOUBLE', (float(nfact),), float(want), 'elementary',
                   ('FACTDOUBLE', nfact), tol_ulp=2)
        R.both('FACT', (2.5,), 2.0, 'elementary', ('FACT', 'fraction'))

        # ---- outside the domain: an Excel error, nothing else ------------
        outside = [
            ('LN', (0,)), ('LN', (-1,)), ('LOG10', (0,)), ('LOG10', (-1,)),
            ('LOG', (0, 10)), ('LOG', (-8, 2)), ('LOG', (8, 1)),
            ('LOG', (8, 0)), ('LOG', (8, -2)), ('SQRT', (-1,)),
            ('SQRT', (-1e-300,)), ('SQRTPI', (-1,)), ('ACOS', (1.0000001,)),
            ('ACOS', (-2,)), ('ASIN', (1.0000001,)), ('ASIN', (-2,)),
            ('ACOSH', (0.9999999,)), ('ACOSH', (-3,)), ('MOD', (5, 0)),
            ('MOD', (0, 0)), ('FACT', (-1,)), ('FACTDOUBLE', (-1,)),
            ('FACT', (-0.5,)), ('FACT', (-1e-15,)), ('FACT', (-0.999,)),
            ('FACTDOUBLE', (-0.3,)), ('FACTDOUBLE', (-1e-9,)),
            ('SQRT', (-5e-324,)), ('LN', (-5e-324,)), ('LOG10', (-1e-300,)),
            ('ACOSH', (1 - 2 ** -53,)), ('ASIN', (1 + 2 ** -52,)),
            ('FACT', (171,)), ('FACT', (1000,)), ('EXP', (1000,)),
            ('COSH', (1000,)), ('POWER', (10, 1000)), ('POWER', (0, -1)),
            ('POWER', (-8, 1 / 3)), ('FLOOR', (5, 0)),
            ('CEILING', (2.5, -1)), ('FLOOR', (2.5, -1)),
            # positive number, negative significance, both tiny (their product
            # underflows to -0.0)
            ('CEILING', (2.5e-200, -1e-200)), ('FLOOR', (1e-162, -1e-162)),
            ('FLOOR', (1e-300, -1e-30)), ('CEILING', (5e-324, -5e-324)),
            ('CEILING', (1e308, -1e-308)), ('FLOOR', (1e-310, -2.0)),
        ]
        for fname, args in outside:
            R.both(fname, tuple(float(a) for a in args), 'error', 'domain',
                   (fname, 'outside', args), formula=True,
                   tags=('outside-domain',))
        # ... the same when the operands are numpy scalars (what the
        # library's own numpy-backed functions hand on) or typed Numbers
        import numpy
        from xlcalculator.xlfunctions import func_xltypes as T_
        for fname, args in outside:
            for sname, conv in (
                    ('numpy.float64', lambda a: numpy.float64(a)),
                    ('numpy.int64', lambda a: numpy.int64(a)
                     if float(a).is_integer() and abs(a) < 2 ** 62
                     else numpy.float64(a)),
                    ('Number(numpy.float64)',
                     lambda a: T_.Number(numpy.float64(a)))):
                nargs = tuple(conv(a) for a in args)
                got = monitors.call_outcome(R.F[fname], *nargs)
                ctx.event('numpy_operand_domain_cases')
                R.judge(fname, tuple(repr(a) for a in nargs), 'error', got,
                        'domain', (fname, 'outside', args, sname), 0, 'lib',
                        ('outside-domain', 'numpy-operands'))
        # ... and when another function of the library produced the operand
        produced = [
            ('=MOD(DEGREES(A1),0)', '#DIV/0!'), ('=MOD(7,COS(A1)-COS(A1))',
                                                '#DIV/0!'),
            ('=MOD(LOG10(1000),A2)', '#DIV/0!'), ('=MOD(ABS(A1),SIGN(A2))',
                                                 '#DIV/0!'),
            ('=MOD(ATAN(A1),RADIANS(A2))', '#DIV/0!'),
            ('=MOD(SQRT(A1),A2)', '#DIV/0!'), ('=MOD(A2,SIN(A2))', '#DIV/0!'),
            ('=LN(COS(A1)-COS(A1))', '#NUM!'), ('=SQRT(SIN(A1)-1.5)', '#NUM!'),
            ('=LOG10(RADIANS(A2))', '#NUM!'), ('=POWER(SIN(A2),-1)', 'error'),
            ('=ACOS(EXP(A1))', '#NUM!'), ('=FLOOR(DEGREES(A1),SIN(A2))',
                                          '#DIV/0!'),
            ('=FACT(COS(A1)-2)', '#NUM!'), ('=1/SIN(A2)', '#DIV/0!'),
            ('=DEGREES(A1)/RADIANS(A2)', '#DIV/0!'),
        ]
        outs = subject.eval_batch([t for t, _ in produced],
                                  {'A1': 1.25, 'A2': 0})
        for (text, code), got in zip(produced, outs):
            ctx.event('numpy_operand_domain_cases')
            ctx.event('formula_calls')
            ctx.case(('produced-operand', text))
            ok = got[0] == 'value' and got[1][0] == 'err' and (
                code == 'error' or got[1][1] == code)
            if not ok:
                ctx.fail(f'{text} with A1=1.25, A2=0 (operands produced by '
                         f'other functions): observed {got}, expected '
                         f'{code}', {'formula': text, 'A1': 1.25, 'A2': 0,
                                     'observed': got, 'expected': code},
                         monitor='reference-value',
                         group=f'produced-operand:{got[0]}')
        # finite results close to the largest double stay finite numbers
        for args in ((10.0, 308.2), (1.2e154, 2.0), (-5e102, 3.0),
                     (2.0, 1023.9), (1.5e308, 1.0), (10.0, 308.0),
                     (2.0, 1023.0), (1.7e308, 1.0), (4.0, 511.9)):
            w = mpmath.power(mpmath.mpf(args[0]), mpmath.mpf(args[1]))
            want = float(w.real if hasattr(w, 'real') else w)
            R.both('POWER', args, want, 'elementary',
                   ('POWER', 'near-max', args), tol_ulp=16)
        # whole-number operands (Python ints, as formulas and cells hold them)
        # whose power passes 2^63: no wrap-around, #NUM! beyond the doubles
        for args in ((10, 19), (2, 64), (3, 40), (2, 63), (-2, 63), (7, 30),
                     (10, 308), (2, 1023)):
            R.both('POWER', args, float(args[0]) ** args[1], 'elementary',
                   ('POWER', 'int-operands', args), tol_ulp=16)
            got = monitors.call_outcome(R.F['POWER'], *args)
        for args in ((2, 1024), (10, 309), (16, 256)):
            got = monitors.call_outcome(R.F['POWER'], *args)
            R.judge('POWER', args, 'error', got, 'domain',
                    ('POWER', 'int-overflow', args), 0, 'lib',
                    ('outside-domain',))
        # integer powers whose exact value has millions of digits: the answer
        # (#NUM!) must come at once
        for args in ((10, 10 ** 10), (7, 10 ** 9), (-3, 10 ** 9 + 1),
                     (2, 10 ** 12)):
            got = monitors.call_with_deadline(R.F['POWER'], args, 5)
            R.judge('POWER', args, 'error', got, 'domain',
                    ('POWER', 'giant-integer', args), 0, 'lib',
                    ('outside-domain',))
    R.flush()
    ctx.data['functions'] = sorted(R.seen)
    rec.report()
    for name, args, res in rec.domain_breaks[:400]:
        ctx.fail(f'result-domain contract: {name}{args} returned {res}',
                 {'function': name, 'args': args, 'result': res},
                 kf=classify(name, (), ('contract', res), 'error',
                             ('contract',)),
                 monitor='result-domain-contract',
                 group=f'contract:{name}:{res[:6]}')


def classify(fname, args, got, want, tags):
    return None


def offline(merged, ctx):
    fs = set()
    for d in merged['data']:
        fs.update(d.get('functions', []))
    merged['counters']['functions_seen'] = len(fs)
