"""C11 — a workbook file loads into a model with the same cells and formulas.

Events: Model.cells / formulae / defined_names / ranges after
read_and_parse_archive(path, ignore_sheets=...); get_cell_value before any
evaluation; Evaluator.evaluate of every cell.
Oracle: the generator's own cell table (files are written as raw SpreadsheetML
by vlib/xlsxw.py, not by openpyxl) + reference translator for shared formulas
+ a model built directly from the same contents + the reference interpreter.
"""
import datetime
import itertools
import os

from vlib import bootstrap, build, monitors, ref, subject, xlsxw

PROPERTY = 'C11'
RULE = ('raw-XML workbooks: 1-4 sheets (names needing quotes), every storage '
        'form (n, plain number, s, str, inlineStr, b, e, date-formatted '
        'number, formula with and without cached value of every result type, '
        'shared-formula master with members below / to the right / in a '
        'block, relative and $ parts), defined names on cells and ranges, '
        'ALL subsets of ignored sheets.  non-trivial = file with >= 4 storage '
        'forms or a shared formula or a name; distinct by (file, ignore set)')
ASSUMPTIONS = [
    'an e-typed value may surface as the error code text or as an error value',
    'ignored sheets "contribute no cells": no stored content of an ignored '
    'sheet may appear (blank placeholders for members of referenced ranges '
    'are not content)',
    'names are only generated on sheets that the ignore set keeps',
    'shared formulas whose shifted member would show a reversed range '
    '(A3:A$2) are not generated: Excel never stores such a text',
]
FLOORS = {'files_loaded': 60, 'cells_compared': 2000,
          'shared_members_compared': 100, 'cached_values_compared': 300,
          'names_compared': 30, 'ignore_sets': 20, 'storage_forms_seen': 9,
          'evaluations_compared': 1000, 'date1904_workbooks': 4,
          'sheet_scoped_twin_names': 5, 'archives_parsed_again': 20,
          'names_on_uncached_formula_cells': 10, 'single_cell_sheets': 10,
          'time_formatted_formula_cells': 5}
ANCHOR_FUNCS = {
    'xlcalculator/reader.py': ['Reader.read', 'Reader.read_cells',
                               'Reader.read_defined_names'],
    'xlcalculator/patch.py': ['WorkSheetParser.parse_cell',
                              'WorksheetReader.bind_cells'],
    'xlcalculator/model.py': ['ModelCompiler.parse_archive',
                              'ModelCompiler.build_defined_names'],
}
TIMEOUT = {'quick': 900, 'thorough': 3600}

SHEETS = ['Sheet1', 'Data', 'My Sheet', "It's", 'Q1 2020', 'Sheet10', 'Data2']
F4 = (False,) * 4


def shards(tier):
    return 16


def shift(ast, dc, dr):
    """what a shared-formula member shows: relative parts move, $ parts stay"""
    k = ast[0]
    if k == 'ref':
        _, s, c, r, ac, ar = ast
        return ('ref', s, c if ac else c + dc, r if ar else r + dr, ac, ar)
    if k == 'rng':
        _, s, c1, r1, c2, r2, fl = ast
        return ('rng', s, c1 if fl[0] else c1 + dc, r1 if fl[1] else r1 + dr,
                c2 if fl[2] else c2 + dc, r2 if fl[3] else r2 + dr, fl)
    if k == 'bin':
        return ('bin', ast[1], shift(ast[2], dc, dr), shift(ast[3], dc, dr))
    if k in ('neg', 'par'):
        return (k, shift(ast[1], dc, dr))
    if k == 'call':
        return ('call', ast[1], [shift(a, dc, dr) for a in ast[2]])
    return ast


class Spec:
    """one generated file: expected model content + reference workbook"""

    def __init__(self):
        self.sb = xlsxw.SheetBuilder()
        self.expect = {}        # key -> dict(kind, value/formula, cached)
        self.wbcells = {}       # reference workbook content
        self.names = {}
        self.forms = set()
        self.shared_members = set()


def close(a, b):
    """equal outcomes; numbers up to the rounding of a different (equally
    valid) summation order"""
    if a == b:
        return True
    if a and b and a[0] == 'value' and b[0] == 'value' and \
            a[1][0] == 'num' and b[1][0] == 'num':
        x, y = a[1][1], b[1][1]
        return abs(x - y) <= 1e-12 * max(abs(x), abs(y))
    return False


def norm_formula(text):
    return text[1:] if text.startswith('=') else text


def gen_file(rng, sheets, date1904=False):
    sp = Spec()
    sp.sb.date1904 = date1904
    epoch = datetime.datetime(1904, 1, 1) if date1904 else \
        datetime.datetime(1899, 12, 30)
    for s in sheets:
        sp.sb.sheet(s)
    texts = ['alpha', 'ß é ж', 'a&b<c>"d"', ' x ', 'TRUE', '12', "it's"]
    for si, s in enumerate(sheets):
        # constants block A1:C6
        for r in range(1, 7):
            for c in range(1, 4):
                if rng.random() < 0.25:
                    continue
                key = (s, c, r)
                form = rng.choice(['num', 'num-n', 'float', 's', 'inlineStr',
                                   'str', 'b'])
                sp.forms.add(form)
                if form in ('num', 'num-n'):
                    v = rng.randint(-50, 500) + si * 1000
                    sp.sb.put_value(s, c, r, v,
                                    form='n' if form == 'num-n' else None)
                    sp.expect[key] = {'kind': 'const', 'value': ('num',
                                                                 float(v))}
                    sp.wbcells[key] = v
                elif form == 'float':
                    v = rng.choice([0.5, 2.25, -7.125, 1e-3, 123456.75])
                    sp.sb.put_value(s, c, r, v)
                    sp.expect[key] = {'kind': 'const', 'value': ('num', v)}
                    sp.wbcells[key] = v
                elif form in ('s', 'inlineStr', 'str'):
                    v = rng.choice(texts) + str(si)
                    sp.sb.put_value(s, c, r, v, form=form)
                    sp.expect[key] = {'kind': 'const', 'value': ('text', v)}
                    sp.wbcells[key] = v
                elif form == 'b':
                    v = rng.random() < 0.5
                    sp.sb.put_value(s, c, r, v)
                    sp.expect[key] = {'kind': 'const', 'value': ('bool', v)}
                    sp.wbcells[key] = v
                elif form == 'date':
                    serial = rng.randint(40000, 46000)
                    sp.sb.put(s, c, r, v=str(serial), s='1')
                    d = epoch + datetime.timedelta(days=serial)
                    sp.expect[key] = {'kind': 'const',
                                      'value': ('date', d.isoformat())}
                    sp.wbcells[key] = serial
                else:
                    code = rng.choice(ref.ERROR_CODES)
                    sp.sb.put(s, c, r, t='e', v=code)
                    sp.expect[key] = {'kind': 'const', 'value': ('err', code)}
                    sp.wbcells[key] = ref.Err(code)
        # dates and error constants live in column D, which no generated
        # formula reads (how they take part in arithmetic is C07/C18 matter)
        for r, form in ((1, 'date'), (2, 'e'), (3, 'date'), (4, 'e')):
            if rng.random() < 0.3:
                continue
            key = (s, 4, r)
            sp.forms.add(form)
            if form == 'date':
                serial = rng.randint(40000, 46000)
                sp.sb.put(s, 4, r, v=str(serial), s='1')
                d = epoch + datetime.timedelta(days=serial)
                sp.expect[key] = {'kind': 'const',
                                  'value': ('date', d.isoformat())}
                sp.wbcells[key] = serial
            else:
                code = rng.choice(ref.ERROR_CODES)
                sp.sb.put(s, 4, r, t='e', v=code)
                sp.expect[key] = {'kind': 'const', 'value': ('err', code)}
                sp.wbcells[key] = ref.Err(code)
        # a time of day (h:mm) and a duration ([h]:mm:ss): numbers as far as
        # the file is concerned.  How the loaded model REPRESENTS them is not
        # stated (no verdict on the constant); formulas that read them must
        # evaluate as over the stored numbers.
        if rng.random() < 0.5:
            for r, style, v in ((8, '2', rng.choice([0.5, 0.25, 0.75])),
                                (9, '3', rng.choice([1.5, 2.25, 0.125]))):
                sp.sb.put(s, 4, r, v=repr(v), s=style)
                sp.expect[(s, 4, r)] = {'kind': 'const', 'value': None}
                sp.wbcells[(s, 4, r)] = v
                ast = ('bin', '*', ('ref', None, 4, r, False, False),
                       ('lit', 24, '24'))
                sp.sb.put_formula(s, 5, r, ref.render(ast))
                sp.expect[(s, 5, r)] = {'kind': 'formula',
                                        'formula': ref.render(ast),
                                        'cached': None}
                sp.wbcells[(s, 5, r)] = ('f', ast)
                # a FORMULA cell in the same format that carries its cached
                # result (a number, shown as a time / duration)
                ast2 = ('bin', '+', ('ref', None, 4, r, False, False),
                        ('lit', 0, '0'))
                sp.sb.put(s, 6, r, f=ref.render(ast2), v=repr(v), s=style)
                sp.expect[(s, 6, r)] = {'kind': 'formula',
                                        'formula': ref.render(ast2),
                                        'cached': ('num', float(v))}
                sp.wbcells[(s, 6, r)] = ('f', ast2)
                sp.forms.add('time-formula-cached')
            sp.forms.add('time')
        for r, form in ((5, 's'), (6, 'inlineStr'), (7, 'str')):
            if rng.random() < 0.5:
                continue
            key = (s, 4, r)
            v = rng.choice(['=A1+1', '=SUM(A1:B2)', '==', '=', '=x'])
            sp.forms.add('text-with-equals-' + form)
            sp.sb.put_value(s, 4, r, v, form=form)
            sp.expect[key] = {'kind': 'const', 'value': ('text', v)}
            sp.not_direct = getattr(sp, 'not_direct', set()) | {key}
        # formulas column E (plain), with and without cached values
        for r in range(1, 6):
            key = (s, 5, r)
            other = rng.choice(sheets)
            a = ('ref', None, rng.randint(1, 3), rng.randint(1, 6), False,
                 False)
            b = ('ref', other if other != s else None, rng.randint(1, 3),
                 rng.randint(1, 6), rng.random() < 0.3, rng.random() < 0.3)
            ast = rng.choice([
                ('bin', '+', a, ('lit', 1, '1')),
                ('call', 'COUNTA', [('rng', other if other != s else None,
                                     1, 1, 3, 3, F4)]),
                ('call', 'ISBLANK', [b]),
                ('bin', '&', ('lit', 'v', '"v"'), ('lit', 'w', '"w"')),
                ('call', 'COUNT', [('rng', None, 1, 1, 2, 6, F4), b]),
            ])
            cached_kind = rng.choice(['none', 'num', 'str', 'b', 'e'])
            sp.forms.add('f-' + cached_kind)
            text = ref.render(ast)
            exp = {'kind': 'formula', 'formula': text, 'cached': None}
            if cached_kind == 'none':
                sp.sb.put_formula(s, 5, r, text)
            elif cached_kind == 'num':
                cv = rng.randint(7000, 7999) + 0.5
                sp.sb.put_formula(s, 5, r, text, cached=repr(cv))
                exp['cached'] = ('num', cv)
            elif cached_kind == 'str':
                ctext = rng.choice(['cached text', ' ', '  ', ' lead',
                                    'trail ', 'a  b', 'TRUE', '12', '0'])
                sp.sb.put_formula(s, 5, r, text, cached=ctext, ctype='str')
                exp['cached'] = ('text', ctext)
            elif cached_kind == 'b':
                sp.sb.put_formula(s, 5, r, text, cached='1', ctype='b')
                exp['cached'] = ('bool', True)
            else:
                sp.sb.put_formula(s, 5, r, text, cached='#N/A', ctype='e')
                exp['cached'] = ('err', '#N/A')
            sp.expect[key] = exp
            sp.wbcells[key] = ('f', ast)
        # a shared formula: master + members (below / right / block)
        layout = rng.choice(['below', 'right', 'block'])
        sp.forms.add('shared-' + layout)
        mc, mr = 7, 1
        nrows, ncols = {'below': (4, 1), 'right': (1, 3),
                        'block': (3, 2)}[layout]
        base = ('bin', '*', ('ref', None, 1, 1, rng.random() < 0.4,
                             rng.random() < 0.4),
                ('call', 'SUM', [('rng', None, 1, 1, 1, 2,
                                  (rng.random() < 0.3, rng.random() < 0.3,
                                   False, False))]))
        if rng.random() < 0.5:
            base = ('bin', '+', base, ('ref', sheets[0], 1, 2, False, True))
        si_ = si
        from vlib.ref import col_letters
        refspan = (f'{col_letters(mc)}{mr}:'
                   f'{col_letters(mc + ncols - 1)}{mr + nrows - 1}')
        for dr in range(nrows):
            for dc in range(ncols):
                key = (s, mc + dc, mr + dr)
                member = shift(base, dc, dr)
                if dr == 0 and dc == 0:
                    sp.sb.put_formula(
                        s, mc, mr, ref.render(base), cached='1',
                        f_attrs=f' t="shared" ref="{refspan}" si="{si_}"')
                else:
                    sp.sb.put(s, mc + dc, mr + dr, f='',
                              f_attrs=f' t="shared" si="{si_}"', v='2')
                    sp.shared_members.add(key)
                sp.expect[key] = {
                    'kind': 'formula', 'formula': ref.render(member),
                    'cached': ('num', 1.0 if (dr == 0 and dc == 0) else 2.0)}
                sp.wbcells[key] = ('f', member)
    return sp


def run(ctx):
    from xlcalculator import ModelCompiler, Evaluator
    rng = ctx.rng
    thorough = ctx.tier == 'thorough'
    out = os.path.join(bootstrap.VERIF, 'out', 'c11')
    os.makedirs(out, exist_ok=True)
    n_files = (1600 if thorough else 64) // ctx.nshards
    forms_seen = set()
    for fi in range(n_files):
        sheets = rng.sample(SHEETS, rng.randint(1, 4))
        if rng.random() < 0.25:
            # a sheet whose name starts with the name of another one (the
            # shorter one may be ignored, the longer one carries the names)
            pair = rng.choice([['Sheet10', 'Sheet1'], ['Data2', 'Data'],
                               # distinct names with the same case-folded form
                               ['Stra\u00dfe', 'Strasse'], ['\ufb01t', 'fit']])
            sheets = pair + [x for x in sheets if x not in pair][:2]
            ctx.event('prefix_named_sheets')
        date1904 = rng.random() < 0.2
        if date1904:
            ctx.event('date1904_workbooks')
        sp = gen_file(rng, sheets, date1904)
        if 'time-formula-cached' in sp.forms:
            ctx.event('time_formatted_formula_cells')
        if fi % 2 == 0:
            # a sheet whose only stored cell is A1 (a single parameter), used
            # by a formula on the first sheet
            single = 'Rate'
            sheets = sheets + [single]
            sp.sb.put_value(single, 1, 1, 0.19)
            sp.expect[(single, 1, 1)] = {'kind': 'const',
                                         'value': ('num', 0.19)}
            sp.wbcells[(single, 1, 1)] = 0.19
            k_use = (sheets[0], 11, 1)
            a_use = ('bin', '*', ('ref', single, 1, 1, False, False),
                     ('lit', 100, '100'))
            sp.sb.put_formula(k_use[0], k_use[1], k_use[2],
                              ref.render(a_use))
            sp.expect[k_use] = {'kind': 'formula',
                                'formula': ref.render(a_use), 'cached': None}
            sp.wbcells[k_use] = ('f', a_use)
            ctx.event('single_cell_sheets')
        with_names = rng.random() < 0.6
        if with_names:
            s0 = sheets[0]
            filled = [k for k in sp.expect if k[0] == s0 and k[1] <= 3]
            if filled:
                k = rng.choice(filled)
                fl_ = rng.choice([(True, True), (True, False), (False, True),
                                  (False, False)])
                sp.names['NmCell'] = ('ref', s0, k[1], k[2]) + fl_
                if fl_ != (True, True):
                    ctx.event('names_with_mixed_references')
            sp.names['NmRange'] = ('rng', s0, 1, 1, 2, 3, (True,) * 4)
            # a name bound to a FORMULA cell that carries no cached result (as
            # files written by other programs than Excel have them), and a
            # formula that uses the name
            kf1, kf2 = (s0, 10, 1), (s0, 10, 2)
            af1 = ('bin', '+', ('call', 'SUM', [('lit', 1, '1'),
                                                ('lit', 2, '2')]),
                   ('lit', 4, '4'))
            af2 = ('bin', '*', ('name', 'NmFormula'), ('lit', 2, '2'))
            for key, ast in ((kf1, af1), (kf2, af2)):
                text = ref.render(ast)
                sp.sb.put_formula(key[0], key[1], key[2], text)
                sp.expect[key] = {'kind': 'formula', 'formula': text,
                                  'cached': None, 'uses_name': key == kf2}
                sp.wbcells[key] = ('f', ast)
            sp.names['NmFormula'] = ('ref', s0, 10, 1, True, True)
            # a user's name that begins with an underscore (legal; not one of
            # Excel's own _xlnm. names), and a formula whose cached result is
            # a 17-digit float next to a short decimal
            sp.names['_under'] = ('ref', s0, 10, 1, True, True)
            k17 = (s0, 10, 3)
            a17 = ('bin', '+', ('lit', 0.1, '0.1'), ('lit', 0.2, '0.2'))
            sp.sb.put_formula(k17[0], k17[1], k17[2], ref.render(a17),
                              cached=repr(0.1 + 0.2))
            sp.expect[k17] = {'kind': 'formula', 'formula': ref.render(a17),
                              'cached': ('num', 0.1 + 0.2)}
            sp.wbcells[k17] = ('f', a17)
            ctx.event('names_on_uncached_formula_cells')
            for nm, t in sp.names.items():
                sp.sb.names.append((nm, build.name_target(t)))
            if len(sheets) > 1 and rng.random() < 0.5:
                # a name of the same spelling that is LOCAL to another sheet
                # (localSheetId) and bound elsewhere: it is that sheet's
                # private name and does not replace the workbook's
                other = sheets[1]
                for nm in list(sp.names):
                    twin = (nm, build.name_target(
                        ('ref', other, 3, 5, True, True)) if nm == 'NmCell'
                        else build.name_target(
                            ('rng', other, 2, 4, 3, 5, (True,) * 4)),
                        sheets.index(other))
                    if rng.random() < 0.5:
                        sp.sb.names.append(twin)
                    else:
                        sp.sb.names.insert(0, twin)
                ctx.event('sheet_scoped_twin_names')
            # the range name used in a formula, next to a formula that spells
            # the same rectangle literally (without $)
            k1, k2 = (s0, 9, 1), (s0, 9, 2)
            a1 = ('call', 'COUNTA', [('name', 'NmRange')])
            a2 = ('call', 'COUNTA', [('rng', None, 1, 1, 2, 3, F4)])
            for key, ast in ((k1, a1), (k2, a2)):
                text = ref.render(ast)
                sp.sb.put_formula(key[0], key[1], key[2], text, cached='3')
                sp.expect[key] = {'kind': 'formula', 'formula': text,
                                  'cached': ('num', 3.0),
                                  'uses_name': key == k1}
                sp.wbcells[key] = ('f', ast)
            if 'NmCell' in sp.names:
                k3 = (s0, 9, 3)
                a3 = ('call', 'ISBLANK', [('name', 'NmCell')])
                sp.sb.put_formula(k3[0], k3[1], k3[2], ref.render(a3))
                sp.expect[k3] = {'kind': 'formula',
                                 'formula': ref.render(a3), 'cached': None,
                                 'uses_name': True}
                sp.wbcells[k3] = ('f', a3)
        # one path per shard: every workbook overwrites the previous one
        path = os.path.join(out, f's{ctx.shard}.xlsx')
        sp.sb.write(path)
        forms_seen |= sp.forms
        subsets = []
        for r_ in range(0, len(sheets)):
            subsets.extend(itertools.combinations(sheets, r_))
        if with_names:
            subsets = [x for x in subsets if sheets[0] not in x]
        if not thorough and len(subsets) > 5:
            subsets = [()] + rng.sample(subsets[1:], 4)
        shared_archive = None
        for n_sub, ignore in enumerate(subsets):
            ctx.event('ignore_sets')
            # the documented ways to load a workbook
            how = rng.choice(['read_and_parse_archive',
                              'read_and_parse_archive', 'pathlib path',
                              'build_code=False, then build_code()',
                              'read_excel_file + parse_archive + build_code'])
            if n_sub % 2 == 1:
                # the file read ONCE, the archive parsed once per set of
                # ignored sheets (the models parsed earlier have been worked
                # with in between, see the end of this loop)
                how = 'one archive parsed again'
            ctx.event('load_forms:' + how.split(',')[0].split(' ')[0])
            try:
                if how == 'read_and_parse_archive':
                    model = ModelCompiler().read_and_parse_archive(
                        path, ignore_sheets=list(ignore))
                elif how == 'pathlib path':
                    import pathlib
                    model = ModelCompiler().read_and_parse_archive(
                        pathlib.Path(path), ignore_sheets=list(ignore))
                elif how.startswith('build_code=False'):
                    model = ModelCompiler().read_and_parse_archive(
                        path, ignore_sheets=list(ignore), build_code=False)
                    model.build_code()
                elif how == 'one archive parsed again':
                    if shared_archive is None:
                        shared_archive = ModelCompiler().read_excel_file(path)
                    mc = ModelCompiler()
                    mc.parse_archive(shared_archive,
                                     ignore_sheets=list(ignore))
                    mc.model.build_code()
                    model = mc.model
                    ctx.event('archives_parsed_again')
                else:
                    mc = ModelCompiler()
                    archive = shared_archive = mc.read_excel_file(path)
                    mc.parse_archive(archive, ignore_sheets=list(ignore))
                    mc.model.build_code()
                    model = mc.model
            except Exception as e:  # noqa
                ctx.fail(f'loading {sheets} (ignore {list(ignore)}; {how}) '
                         f'raised '
                         f'{type(e).__name__}: {str(e)[:300]}',
                         {'sheets': sheets, 'ignore': list(ignore),
                          'names': sp.sb.names, 'forms': sorted(sp.forms)},
                         monitor='load-raises',
                         group=f'raises:{type(e).__name__}')
                continue
            ctx.event('files_loaded')
            kept = {k: v for k, v in sp.expect.items() if k[0] not in ignore}
            problems = []
            # one cell per stored cell of every kept sheet
            for key, exp in kept.items():
                a = build.addr(key)
                ctx.event('cells_compared')
                c = model.cells.get(a)
                if c is None:
                    problems.append(f'{a}: stored cell missing')
                    continue
                if exp['kind'] == 'const' and exp['value'] is None:
                    if c.formula is not None:
                        problems.append(f'{a}: constant loaded as formula')
                elif exp['kind'] == 'const':
                    got = monitors.norm(c.value)
                    want = exp['value']
                    ok = got == want or (want[0] == 'err' and got ==
                                         ('text', want[1])) or (
                        want[0] == 'num' and got[0] == 'num'
                        and got[1] == want[1])
                    if not ok or c.formula is not None:
                        problems.append(f'{a}: constant {want} loaded as '
                                        f'{got} formula={c.formula}')
                else:
                    if c.formula is None:
                        problems.append(f'{a}: formula {exp["formula"]!r} '
                                        f'loaded as constant '
                                        f'{monitors.norm(c.value)}')
                        continue
                    if key in sp.shared_members:
                        ctx.event('shared_members_compared')
                    if norm_formula(c.formula.formula) != exp['formula']:
                        problems.append(
                            f'{a}: formula text {c.formula.formula!r}, the '
                            f'cell shows {exp["formula"]!r}'
                            + (' (shared-formula member)'
                               if key in sp.shared_members else ''))
                    if a not in model.formulae:
                        problems.append(f'{a}: not in model.formulae')
                    # cached value through get_cell_value before evaluation
                    ctx.event('cached_values_compared')
                    got = monitors.norm(model.get_cell_value(a))
                    want = exp['cached']
                    if want is None:
                        if got not in (('blank',), ('text', '')):
                            problems.append(f'{a}: no cached value stored, '
                                            f'get_cell_value gives {got}')
                    elif not (got == want or (want[0] == 'err' and
                                              got == ('text', want[1]))):
                        problems.append(f'{a}: cached value {want} read as '
                                        f'{got}')
            # ignored sheets contribute no content
            for a, c in model.cells.items():
                sname = a.rsplit('!', 1)[0]
                if sname in ignore and (c.formula is not None or
                                        c.value not in (None, '')):
                    problems.append(f'{a}: content of an ignored sheet was '
                                    f'loaded')
                if sname not in sheets:
                    problems.append(f'{a}: cell on an unknown sheet')
            # no extra stored cells on kept sheets
            for a, c in model.cells.items():
                sname, coord = a.rsplit('!', 1)
                if sname in ignore or sname not in sheets:
                    continue
                col = ref.col_index(''.join(ch for ch in coord
                                            if ch.isalpha()))
                row = int(''.join(ch for ch in coord if ch.isdigit()))
                if (sname, col, row) not in kept and (
                        c.formula is not None or c.value not in (None, '')):
                    problems.append(f'{a}: cell with content that the file '
                                    f'does not store')
            # names
            for nm, t in sp.names.items():
                ctx.event('names_compared')
                d = model.defined_names.get(nm)
                if d is None:
                    if t[0] == 'ref' and (t[1], t[2], t[3]) not in kept:
                        continue
                    problems.append(f'name {nm} -> {build.name_target(t)} '
                                    f'not loaded')
                    continue
                if t[0] == 'ref':
                    want = build.addr((t[1], t[2], t[3]))
                    if getattr(d, 'address', None) != want:
                        problems.append(f'name {nm} bound to '
                                        f'{getattr(d, "address", d)!r}, '
                                        f'expected {want}')
                else:
                    want = [[build.addr((t[1], c, r))
                             for c in range(t[2], t[4] + 1)]
                            for r in range(t[3], t[5] + 1)]
                    if getattr(d, 'cells', None) != want:
                        problems.append(f'name {nm} bound to '
                                        f'{getattr(d, "cells", d)!r}, '
                                        f'expected {want}')
            # evaluation = model built directly from the same contents
            wb = ref.Workbook({k: v for k, v in sp.wbcells.items()
                               if k[0] not in ignore}, sp.names)
            ev = Evaluator(model)
            direct = None
            try:
                dcells = {k: v for k, v in wb.cells.items()
                          if not isinstance(v, ref.Err)}
                for k, v in wb.cells.items():
                    if isinstance(v, ref.Err):
                        dcells[k] = ('f', ('lit', v, v.code))
                direct = Evaluator(build.model_from_dict(
                    ref.Workbook(dcells), default_sheet=sheets[0]))
            except Exception as e:  # noqa
                ctx.note(f'direct model not buildable: {e!r}'[:200])
            for key, exp in kept.items():
                if exp['kind'] != 'formula':
                    continue
                a = build.addr(key)
                got = subject.outcome_of(lambda: ev.evaluate(a))
                ctx.event('evaluations_compared')
                try:
                    want = ('value', ref.to_norm(wb.value(key)))
                except ref.Undecided:
                    want = None
                if want is not None and not close(got, want):
                    problems.append(f'evaluate({a}) [{exp["formula"]}] -> '
                                    f'{got}, reference {want[1]}')
                if direct is not None and not exp.get('uses_name'):
                    # (the dict path has no defined names)
                    gd = subject.outcome_of(lambda: direct.evaluate(a))
                    if not close(gd, got):
                        problems.append(
                            f'evaluate({a}) -> {got} on the loaded model, '
                            f'{gd} on a model built directly from the same '
                            f'contents')
            # the loaded model is worked with (inputs overwritten, every
            # formula evaluated above): whatever is loaded next - from the
            # file or from the archive read before - shows the FILE
            for a_, c_ in list(model.cells.items()):
                if c_.formula is None and isinstance(c_.value, (int, float)) \
                        and not isinstance(c_.value, bool):
                    try:
                        model.set_cell_value(a_, 987654.5)
                    except Exception:  # noqa
                        pass
            nt = (fi, ctx.shard, ignore) if (
                len(sp.forms) >= 4 or sp.shared_members or sp.names) else None
            ctx.case(nt)
            if ctx.want_sample() and rng.random() < 0.1:
                ctx.sample({'sheets': sheets, 'ignore': list(ignore),
                            'storage_forms': sorted(sp.forms),
                            'names': sp.sb.names,
                            'cells_expected': len(kept),
                            'cells_loaded': len(model.cells)})
            if problems:
                groups = {}
                for p in problems:
                    g = p.split(':', 1)[1][:26] if ':' in p else p[:26]
                    groups.setdefault(g, []).append(p)
                for g, ps in groups.items():
                    ctx.fail(f'file {sheets} ignore={list(ignore)} [{how}]: '
                             f'{ps[0]} (+{len(ps) - 1} alike)',
                             {'sheets': sheets, 'ignore': list(ignore),
                              'loaded_by': how,
                              'problems': ps[:10], 'names': sp.sb.names},
                             monitor='load-equivalence', group=g)
        try:
            os.remove(path)
        except OSError:
            pass
    ctx.data['forms'] = sorted(forms_seen)


def offline(merged, ctx):
    forms = set()
    for d in merged['data']:
        forms.update(d.get('forms', []))
    kinds = {f.split('-')[0] if f.startswith(('shared', 'f-')) else f
             for f in forms}
    merged['counters']['storage_forms_seen'] = len(forms)
