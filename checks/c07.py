"""C07 — Excel errors are values that propagate; typed operands never crash.

Events: outcome (value class / error code / escaped Python exception) of every
registry call xl.FUNCTIONS[NAME](...) and of Evaluator.evaluate for the formula
spelling; stored cell values after evaluation.
Oracle: table-driven from the statement (error in -> that error out, leftmost
of several; typed operands -> value or #VALUE!/#DIV/0!/#NUM!, no exception).
"""
import datetime
import itertools

from vlib import catalog, monitors, subject
from vlib.ref import ERROR_CODES

PROPERTY = 'C07'
RULE = ('exhaustive from the LIVE registry: every operator x both positions x '
        '7 error codes x 6 other-operand types; every registered function x '
        'every scalar position x 7 codes (other arguments from the catalogue '
        'of valid calls); aggregating functions x error first/middle/last in '
        'the argument list and inside a range, two errors (leftmost wins); '
        'all ordered pairs of scalar types x 14 operators (no Python '
        'exception); each as library call and as formula (literal error, '
        'computed error, reference to an error cell, chain of dependants); '
        'IS*/NA truth table.  distinct non-trivial = distinct (callee, '
        'position, code, other-operand type, spelling)')
ASSUMPTIONS = [
    'excluded as the statement says: IS*/COUNT family, arguments a lazy '
    'function does not select (IF branches, CHOOSE alternatives, AND/OR '
    'arguments after a deciding one)',
    'volatile functions (RAND, RANDBETWEEN, NOW, TODAY) only checked for '
    'error propagation, not for values',
    'SUMIF/SUMIFS are skipped when the installed pandas cannot run them',
]
FLOORS = {'error_below_gap_cases': 70, 'absolute_range_error_cases': 200, 'cached_error_cases': 100, 'and_or_range_error_cases': 300, 'op_error_cases': 1000, 'func_error_cases': 1000,
          'type_pair_cases': 500, 'aggregate_cases': 200,
          'stored_error_cases': 8, 'truth_table_cases': 50,
          'formula_spelling_cases': 1000}
ANCHOR_FUNCS = {
    'xlcalculator/xlfunctions/xl.py': ['validate_args.<locals>.validate',
                                       '_validate'],
    'xlcalculator/evaluator.py': ['Evaluator.evaluate'],
    'xlcalculator/ast_nodes.py': ['OperatorNode.eval', 'FunctionNode.eval',
                                  'OperandNode.eval'],
}
TIMEOUT = {'quick': 600, 'thorough': 2400}

BIN = {'OP_ADD': '+', 'OP_SUB': '-', 'OP_MUL': '*', 'OP_DIV': '/',
       'POWER': '^', 'CONCAT': '&', 'OP_EQ': '=', 'OP_NE': '<>',
       'OP_GT': '>', 'OP_LT': '<', 'OP_GE': '>=', 'OP_LE': '<='}
ALLOWED_ERRS = {'#VALUE!', '#DIV/0!', '#NUM!'}

OTHERS = {
    'number': 2.5, 'int': 3, 'numtext': '4', 'text': 'abc', 'bool': True,
    'blank': None, 'date': datetime.datetime(2020, 2, 3),
}


def shards(tier):
    return 8


def mkerr(code):
    from xlcalculator.xlfunctions import xlerrors
    return xlerrors.ERRORS_BY_CODE[code]('injected')


def err_formulas(code):
    """three spellings of an error inside a formula"""
    out = [('literal', code)]
    if code == '#DIV/0!':
        out.append(('computed', '(1/0)'))
    if code == '#N/A':
        out.append(('computed', 'NA()'))
    if code == '#VALUE!':
        out.append(('computed', '("a"+1)'))
    return out


class Batch:
    """formula-spelling cases evaluated many per model"""

    def __init__(self, ctx, judge):
        self.ctx = ctx
        self.judge = judge
        self.items = []
        self.inputs = {}
        self.post = {}
        self.row = 1

    def place(self, value):
        """put one value in a fresh cell, return its reference text"""
        a = f'A{self.row}'
        self.row += 1
        if isinstance(value, tuple) and value[0] == 'err':
            self.inputs[a] = '=' + value[1]
        elif isinstance(value, datetime.datetime):
            self.inputs[a] = 0
            self.post['Sheet1!' + a] = value
        elif value is None:
            pass
        else:
            self.inputs[a] = value
        return a

    def place_matrix(self, m):
        r0 = self.row
        ncol = len(m[0])
        for i, row in enumerate(m):
            for j, v in enumerate(row):
                a = f'{chr(65 + j)}{r0 + i}'
                if isinstance(v, tuple) and v[0] == 'err':
                    self.inputs[a] = '=' + v[1]
                elif v is not None:
                    self.inputs[a] = v
        self.row += len(m)
        return f'A{r0}:{chr(64 + ncol)}{r0 + len(m) - 1}'

    def place_matrix_at(self, m, col0):
        """like place_matrix, the block starting at column number col0"""
        from vlib.ref import col_letters
        r0 = self.row
        for i, row in enumerate(m):
            for j, v in enumerate(row):
                a = f'{col_letters(col0 + j)}{r0 + i}'
                if isinstance(v, tuple) and v[0] == 'err':
                    self.inputs[a] = '=' + v[1]
                elif v is not None:
                    self.inputs[a] = v
        self.row += len(m)
        return (f'{col_letters(col0)}{r0}:'
                f'{col_letters(col0 + len(m[0]) - 1)}{r0 + len(m) - 1}')

    def add(self, text, meta):
        self.items.append((text, meta))

    def maybe_flush(self):
        # only between groups of cases: a flush clears the placed cells, and
        # several formulas of one group may read the same placed cells
        if len(self.items) >= 300:
            self.flush()

    def flush(self):
        items, self.items = self.items, []
        inputs, self.inputs = self.inputs, {}
        post, self.post = self.post, {}
        self.row = 1
        if not items:
            return
        outs = subject.eval_batch([t for t, _ in items], inputs,
                                  post_set=post)
        for (text, meta), got in zip(items, outs):
            self.ctx.event('formula_spelling_cases')
            self.judge(text, meta, got)


def arg_text(b, v):
    """render one argument for the formula spelling"""
    if isinstance(v, tuple) and v[0] == 'err':
        return v[1]
    if isinstance(v, tuple) and v[0] == 'expr':
        return v[1]
    if isinstance(v, list):
        return b.place_matrix(v)
    if v is None or isinstance(v, datetime.datetime):
        return b.place(v)
    return subject.lit(v)


def run(ctx):
    from xlcalculator.xlfunctions import xl, xlerrors
    import pandas
    F = xl.FUNCTIONS
    sh, n = ctx.shard, ctx.nshards
    thorough = ctx.tier == 'thorough'
    have_applymap = hasattr(pandas.DataFrame, 'applymap')
    missing = catalog.uncatalogued(F)
    if missing:
        ctx.inconclusive_because(
            f'registered functions missing from the catalogue: {missing}')

    def expect_error(what, key, code, got, extra=None, kf=None):
        ctx.case(key)
        ok = got == ('value', ('err', code))
        if ctx.want_sample() and ctx.rng.random() < 0.003:
            ctx.sample({'case': what, 'observed': got,
                        'expected': ['err', code]})
        if not ok:
            ctx.fail(f'{what}: observed {got}, expected error value {code}',
                     {'case': what, 'observed': got, 'expected': code,
                      **(extra or {})}, kf=kf(got) if kf else None,
                     monitor='error-propagation')

    def judge_formula(text, meta, got):
        kind = meta['kind']
        if kind == 'expect_error':
            expect_error(text, meta['key'], meta['code'], got,
                         {'inputs': meta.get('inputs')}, meta.get('kf'))
        elif kind == 'no_crash':
            judge_no_crash(text, meta['key'], got, meta.get('kf'))
        elif kind == 'no_crash_any':
            # only "no Python exception" is judged (any error class may be
            # handed on from the inner operation)
            ctx.case(meta['key'])
            ctx.event('edge_number_chained')
            if got[0] == 'raised':
                ctx.fail(f'{text} with {meta.get("inputs")}: Python exception '
                         f'escaped: {got}', {'formula': text, 'observed': got},
                         monitor='typed-operands', group='edge-formula')

    def judge_no_crash(what, key, got, kf=None):
        ctx.case(key)
        ctx.event('type_pair_cases')
        bad = None
        if got[0] == 'raised':
            bad = 'Python exception escaped'
        elif got[1][0] == 'err' and got[1][1] not in ALLOWED_ERRS:
            bad = 'unexpected error class'
        elif got[1][0] in ('other', 'array'):
            bad = 'result is not a scalar Excel value'
        if bad:
            ctx.fail(f'{what}: {bad}: {got}', {'case': what, 'observed': got},
                     kf=kf(got) if kf else None, monitor='typed-operands')

    B = Batch(ctx, judge_formula)

    # ---- A. operators: error operand at each position ----------------------
    ops = list(BIN.items()) + [('OP_NEG', 'u-'), ('OP_PERCENT', '%')]
    work = 0
    for name, sym in ops:
        f = F.get(name)
        for code in ERROR_CODES:
            for oname, other in OTHERS.items():
                B.maybe_flush()
                work += 1
                if work % n != sh:
                    continue
                if (oname == 'text' and sym in '+-*/^'):
                    # a non-numeric text is itself an implicit #VALUE!
                    # operand: which of two errors wins is "the leftmost",
                    # already covered by the two-error block below
                    continue
                if sym in ('u-', '%'):
                    if oname != 'number':
                        continue
                    got = monitors.call_outcome(f, mkerr(code))
                    ctx.event('op_error_cases')
                    expect_error(f'{name}({code})', (name, 0, code, 'lib'),
                                 code, got)
                    for sp, et in err_formulas(code):
                        t = f'=-{et}' if sym == 'u-' else None
                        if t:
                            B.add(t, {'kind': 'expect_error', 'code': code,
                                      'key': (name, 0, code, 'formula', sp)})
                    continue
                for pos in (0, 1):
                    args = [other, other]
                    args[pos] = mkerr(code)
                    got = monitors.call_outcome(f, *args)
                    ctx.event('op_error_cases')
                    expect_error(
                        f'{name}({"err" if pos == 0 else oname}, '
                        f'{"err" if pos == 1 else oname}) err={code}',
                        (name, pos, code, oname, 'lib'), code, got)
                    for sp, et in err_formulas(code):
                        oth = B.place(other)
                        l, r = (et, oth) if pos == 0 else (oth, et)
                        B.add(f'={l}{sym}{r}',
                              {'kind': 'expect_error', 'code': code,
                               'key': (name, pos, code, oname, 'formula', sp)})
                    # reference to an error cell
                    ec = B.place(('err', code))
                    oth = B.place(other)
                    l, r = (ec, oth) if pos == 0 else (oth, ec)
                    B.add(f'={l}{sym}{r}',
                          {'kind': 'expect_error', 'code': code,
                           'key': (name, pos, code, oname, 'formula', 'cell')})
            # two different errors: the leftmost wins
            for code2 in ERROR_CODES:
                if code2 == code or sym in ('u-', '%'):
                    continue
                B.maybe_flush()
                work += 1
                if work % n != sh:
                    continue
                got = monitors.call_outcome(f, mkerr(code), mkerr(code2))
                ctx.event('op_error_cases')
                expect_error(f'{name}({code}, {code2}) leftmost',
                             (name, 'both', code, code2, 'lib'), code, got)
                B.add(f'={code}{sym}{code2}',
                      {'kind': 'expect_error', 'code': code,
                       'key': (name, 'both', code, code2, 'formula')})

    # ---- B. all ordered pairs of scalar types through all operators --------
    def kf_typed(got):
        if got[0] == 'raised' and 'RecursionError' in got[1]:
            return 'KF-C09-02'
        if got[0] == 'raised' and 'maximum recursion' in got[1]:
            return 'KF-C09-02'
        return None

    type_values = dict(OTHERS)
    type_values.update({'zero': 0, 'negative': -1.5, 'emptytext': '',
                        'false': False, 'booltext': 'true',
                        'scitext': '1e3', 'blanktext': ' ',
                        # texts a date/number reader may choke on
                        'tz-date-text': '2020-01-01T00:00:00Z',
                        'offset-date-text': '2020-01-01 10:00+02:00',
                        'huge-digits-text': '9' * 400,
                        'digits-5000-text': '7' * 5000,
                        'superscript-digit-text': '\u00b2',
                        'circled-digit-text': '\u2460',
                        'mixed-digit-text': '1\u00b2',
                        'time-text': '12:00',
                        # dates outside / at the edges of the serial range
                        'date-before-1900': datetime.datetime(1850, 5, 1),
                        'date-1899-12-30': datetime.datetime(1899, 12, 30),
                        'date-year-1': datetime.datetime(1, 1, 1),
                        'date-9999': datetime.datetime(9999, 12, 31, 23, 59,
                                                       59),
                        'date-with-time': datetime.datetime(2020, 2, 3, 13,
                                                            14, 15)})
    from xlcalculator.xlfunctions import func_xltypes as T

    def typed(v):
        try:
            return T.ExcelType.cast_from_native(v)
        except Exception:  # noqa
            return v
    for (an, a), (bn, b) in itertools.product(type_values.items(), repeat=2):
        for name, sym in BIN.items():
            B.maybe_flush()
            work += 1
            if work % n != sh:
                continue
            f = F.get(name)
            for spelling, (x, y) in (('native', (a, b)),
                                     ('typed', (typed(a), typed(b)))):
                got = monitors.call_outcome(f, x, y)
                is_blank_pair = (an == 'blank' or bn == 'blank')
                judge_no_crash(f'{name}({an}:{a!r}, {bn}:{b!r}) [{spelling}]',
                               (name, an, bn, spelling), got,
                               kf_typed if is_blank_pair else None)
            if an in ('emptytext', 'blanktext') or bn in ('emptytext',
                                                          'blanktext'):
                continue     # cannot be stored through the dict constructor
            ca, cb = B.place(a), B.place(b)
            B.add(f'={ca}{sym}{cb}',
                  {'kind': 'no_crash', 'key': (name, an, bn, 'formula'),
                   'kf': kf_typed if (an == 'blank' or bn == 'blank')
                   else None})
    for an, a in type_values.items():
        for name in ('OP_NEG', 'OP_PERCENT'):
            B.maybe_flush()
            work += 1
            if work % n != sh:
                continue
            for spelling, x in (('native', a), ('typed', typed(a))):
                got = monitors.call_outcome(F.get(name), x)
                judge_no_crash(f'{name}({an}:{a!r}) [{spelling}]',
                               (name, an, spelling), got)

    # ---- B2. numbers at the edges of the double range --------------------------
    # every ordered pair through every operator, and the result (when it is a
    # value) handed on as an operand of a second operator: neither step may
    # raise.  (Whether an overflowing product is #NUM! or an infinity is not
    # stated and not judged; a Python exception is.)
    edge = [1e308, -1e308, 1.7976931348623157e308, 5e-324, -5e-324, 1e-320,
            2.0, 2, -2.0, 1024, 1024.0, 1023.5, 308.27, 308.3, 10, 16, 256,
            4, 512.0, 0.5, -0.0, 1e154, 1.3407807929942597e154, 2 ** 53,
            2 ** 62, 10 ** 20, 709.79, 1e15, 1.0000000000000002, 3]
    if thorough:
        edge += [ctx.rng.choice([1, -1]) * 10 ** ctx.rng.uniform(-320, 308.2)
                 for _ in range(40)]
        edge = [v for v in edge if v == v and abs(v) != float('inf')]
    second = [('OP_MUL', '*', 1.5), ('OP_ADD', '+', 0.5), ('OP_DIV', '/', 3),
              ('OP_SUB', '-', 0.25), ('CONCAT', '&', 'x'), ('OP_LT', '<', 1.5),
              ('POWER', '^', 0.5)]
    for a, b in itertools.product(edge, repeat=2):
        for name, sym in BIN.items():
            B.maybe_flush()
            work += 1
            if work % n != sh:
                continue
            f = F.get(name)
            got = monitors.call_outcome_raw(f, a, b)
            ctx.event('edge_number_cases')
            g1 = ('value', monitors.norm(got[1])) if got[0] == 'value' else got
            judge_no_crash(f'{name}({a!r}, {b!r})', (name, 'edge', a, b), g1)
            if got[0] != 'value':
                continue
            n2, s2, c = second[work % len(second)]
            got2 = monitors.call_outcome(F.get(n2), got[1], c)
            ctx.event('edge_number_chained')
            if got2[0] == 'raised':
                ctx.fail(f'{n2}({name}({a!r}, {b!r}), {c!r}): Python exception '
                         f'escaped: {got2}; the first result was {g1}',
                         {'function': name, 'args': [repr(a), repr(b)],
                          'then': [n2, repr(c)], 'first_result': g1,
                          'observed': got2}, monitor='typed-operands',
                         group=f'edge-chain:{name}:{n2}')
            if sym not in ('^', '*', '/') and not thorough:
                continue
            ca, cb = B.place(a), B.place(b)
            B.add(f'=({ca}{sym}{cb}){s2}{subject.lit(c)}',
                  {'kind': 'no_crash_any', 'key': (name, 'edge-formula', a, b)})

    # ---- C. every registered function x scalar position x code -------------
    for name in sorted(F):
        if name in catalog.SPIES or name not in catalog.EX:
            continue
        if name in catalog.ERROR_INSPECTING or name in BIN \
                or name in ('OP_NEG', 'OP_PERCENT'):
            continue
        if name in ('SUMIF', 'SUMIFS') and not have_applymap:
            ctx.note('SUMIF/SUMIFS not monitored: installed pandas has no '
                     'DataFrame.applymap')
            continue
        ex = catalog.EX[name]
        f = F[name]
        for pos, exv in enumerate(ex):
            if isinstance(exv, list):
                continue
            if pos in catalog.LAZY_POSITIONS.get(name, ()):
                continue
            if name in ('AND', 'OR') and pos > 0:
                continue
            for code in ERROR_CODES:
                B.maybe_flush()
                work += 1
                if work % n != sh:
                    continue
                args = [(T.Array(a) if isinstance(a, list) else a)
                        for a in ex]
                args[pos] = mkerr(code)
                got = monitors.call_outcome(f, *args)
                ctx.event('func_error_cases')

                def kf_func(got, name=name, pos=pos):
                    return classify_function_error(name, pos, got)
                expect_error(f'{name} with {code} at position {pos}',
                             (name, pos, code, 'lib'), code, got, kf=kf_func)
                # formula spelling
                fargs = list(ex)
                for sp, et in err_formulas(code)[:2 if thorough else 1]:
                    fargs[pos] = ('expr', et)
                    text = f'={name}(' + ','.join(
                        arg_text(B, a) for a in fargs) + ')'
                    B.add(text, {'kind': 'expect_error', 'code': code,
                                 'key': (name, pos, code, 'formula', sp),
                                 'kf': kf_func})
                fargs[pos] = ('expr', B.place(('err', code)))
                text = f'={name}(' + ','.join(
                    arg_text(B, a) for a in fargs) + ')'
                B.add(text, {'kind': 'expect_error', 'code': code,
                             'key': (name, pos, code, 'formula', 'cell'),
                             'kf': kf_func})

    # ---- D. aggregating functions: error as element ------------------------
    for name in sorted(catalog.AGGREGATING):
        if name not in F:
            continue
        f = F[name]
        for code in ERROR_CODES:
            B.maybe_flush()
            work += 1
            if work % n != sh:
                continue
            e = ('err', code)
            if name == 'SUMPRODUCT':
                layouts = {
                    'range-first': [[[e], [2.0], [3.0]], R3()],
                    'range-last': [R3(), [[1.0], [2.0], [e]]],
                    'behind-text': [[['tx'], [2.0], [3.0]],
                                    [[e], [2.0], [3.0]]],
                    'behind-blank-3rd': [[[None], [2.0], [3.0]], R3(),
                                         [[e], [2.0], [3.0]]],
                }
            elif name == 'NPV':
                layouts = {
                    'list-first': [0.1, e, 2.0, 3.0],
                    'list-last': [0.1, 1.0, 2.0, e],
                    'range-middle': [0.1, [[1.0], [e], [3.0]]],
                }
            else:
                one = 'a' if name.startswith('CONCAT') else 1.0
                two = 'b' if name.startswith('CONCAT') else 2.0
                layouts = {
                    'list-first': [e, one, two],
                    'list-middle': [one, e, two],
                    'list-last': [one, two, e],
                    'range-first': [[[e], [one], [two]]],
                    'range-middle': [[[one], [e], [two]], two],
                    'range-last': [one, [[one], [two], [e]]],
                    'range-2d': [[[one, two], [two, e]]],
                }
                if name == 'CONCATENATE':
                    layouts = {k: v for k, v in layouts.items()
                               if k.startswith('list')}
            for lname, args in layouts.items():
                # library spelling
                largs = []
                for a in args:
                    if a == e:
                        largs.append(mkerr(code))
                    elif isinstance(a, list):
                        largs.append(T.Array(
                            [[mkerr(code) if v == e else v for v in row]
                             for row in a]))
                    else:
                        largs.append(a)
                got = monitors.call_outcome(f, *largs)
                ctx.event('aggregate_cases')
                expect_error(f'{name} {lname} {code} [library]',
                             (name, lname, code, 'lib'), code, got,
                             kf=kf_sumproduct if name == 'SUMPRODUCT'
                             else None)
                text = f'={name}(' + ','.join(arg_text(B, a) for a in args) \
                    + ')'
                ctx.event('aggregate_cases')
                B.add(text, {'kind': 'expect_error', 'code': code,
                             'key': (name, lname, code, 'formula'),
                             'kf': kf_sumproduct if name == 'SUMPRODUCT'
                             else None})
                if ':' in text:
                    # the same ranges spelt absolute and mixed ($)
                    import re as _re
                    for style, rep in (('abs', r'$\1$\2:$\3$\4'),
                                       ('mixed', r'\1$\2:$\3\4')):
                        t2 = _re.sub(r'([A-Z]+)(\d+):([A-Z]+)(\d+)', rep,
                                     text)
                        ctx.event('aggregate_cases')
                        ctx.event('absolute_range_error_cases')
                        B.add(t2, {'kind': 'expect_error', 'code': code,
                                   'key': (name, lname, code, 'formula',
                                           style),
                                   'kf': kf_sumproduct
                                   if name == 'SUMPRODUCT' else None})
            # two errors: leftmost (row-major inside a range)
            if name not in ('SUMPRODUCT', 'NPV'):
                code2 = ERROR_CODES[(ERROR_CODES.index(code) + 3) % 7]
                e2 = ('err', code2)
                one = 'a' if name.startswith('CONCAT') else 1.0
                text = f'={name}({code},{subject.lit(one)},{code2})'
                B.add(text, {'kind': 'expect_error', 'code': code,
                             'key': (name, 'two-list', code, 'formula')})
                if name != 'CONCATENATE':
                    rng = B.place_matrix([[one, e], [e2, one]])
                    B.add(f'={name}({rng})',
                          {'kind': 'expect_error', 'code': code,
                           'key': (name, 'two-range', code, 'formula')})
                ctx.event('aggregate_cases', 2)
                # the two errors in arguments of different kinds: inside a
                # range and as a plain argument, in both orders, and in two
                # ranges; the leftmost in reading order is the result
                two = 'b' if name.startswith('CONCAT') else 2.0
                mixed = {
                    'range-then-scalar': [[[one], [e], [two]], two, e2],
                    'scalar-then-range': [one, e, [[two], [e2]]],
                    'range-then-range': [[[one, e]], [[e2, two]]],
                    'range-then-scalar-first': [[[e, one]], e2],
                }
                if name == 'CONCATENATE':
                    mixed = {}

                def to_lib(a):
                    if isinstance(a, tuple) and a[0] == 'err':
                        return mkerr(a[1])
                    if isinstance(a, list):
                        return T.Array([[to_lib(v) for v in row]
                                        for row in a])
                    return a
                # the two errors in one ROW of a range that does not start in
                # column A (G:H, F:I, G:I, AD:AH, W:Z ...): left to right
                if name != 'CONCATENATE':
                    for col0, width in ((7, 2), (6, 4), (7, 3), (30, 5),
                                        (23, 4), (15, 3), (31, 2)):
                        row_ = [one] * width
                        row_[0], row_[-1] = e, e2
                        if width > 3:
                            row_[1] = e
                            row_[0] = one
                        rg_ = B.place_matrix_at([row_], col0)
                        B.add(f'={name}({rg_})',
                              {'kind': 'expect_error', 'code': code,
                               'key': (name, 'two-in-a-row', col0, width,
                                       code, 'formula')})
                        ctx.event('aggregate_cases')
                        ctx.event('shifted_range_two_error_cases')
                for lname, args in mixed.items():
                    got = monitors.call_outcome(f, *[to_lib(a) for a in args])
                    ctx.event('aggregate_cases')
                    ctx.event('mixed_two_error_cases')
                    expect_error(f'{name} {lname} {code} before {code2} '
                                 f'[library]', (name, lname, code, 'lib'),
                                 code, got)
                    text = f'={name}(' + ','.join(
                        arg_text(B, a) for a in args) + ')'
                    B.add(text, {'kind': 'expect_error', 'code': code,
                                 'key': (name, lname, code, 'formula')})
    # ---- D2. AND / OR: an error among the elements of a range, the other
    # elements not deciding the result (TRUE for AND, FALSE / 0 for OR) ----------
    for name, neutral in (('AND', [True, 1.0, 2.5]), ('OR', [False, 0.0])):
        if name not in F:
            continue
        for code in ERROR_CODES:
            B.maybe_flush()
            work += 1
            if work % n != sh:
                continue
            e = ('err', code)
            t1, t2 = neutral[0], neutral[1]
            layouts = {
                'range-first': [[[e], [t1], [t2]]],
                'range-middle': [[[t1], [e], [t2]]],
                'range-last': [[[t1], [t2], [e]]],
                'range-2d': [[[t1, t2], [t2, e]]],
                'row-range': [[[t1, e, t2]]],
                'scalar-then-range': [t1, [[t2], [e]]],
                'range-then-scalar': [[[t1], [e]], t2],
                'two-ranges': [[[t1], [t2]], [[t1], [e]]],
                'only-element': [[[e]]],
            }
            for lname, args in layouts.items():
                text = f'={name}(' + ','.join(arg_text(B, a) for a in args) \
                    + ')'
                ctx.event('aggregate_cases')
                ctx.event('and_or_range_error_cases')
                B.add(text, {'kind': 'expect_error', 'code': code,
                             'key': (name, lname, code, 'formula')})
                for wrap in ('IF({},1,2)', 'NOT({})', '{}+0'):
                    ctx.event('and_or_range_error_cases')
                    B.add('=' + wrap.format(text[1:]),
                          {'kind': 'expect_error', 'code': code,
                           'key': (name, lname, code, 'formula', wrap)})
    B.flush()

    # ---- D3. an error below a gap of empty cells in a sparse range (gaps of
    # 101-200 cells; KF-C03-02 is about what lies behind LONGER gaps and about
    # blank runs in rows) -------------------------------------------------------
    if sh in (2, 3) or thorough:
        for gap in (50, 101, 150, 199):
            for code in ('#N/A', '#DIV/0!', '#VALUE!'):
                cells_ = {f'A{i}': float(i) for i in range(1, 21)}
                row_e = 20 + gap + 1
                cells_[f'A{row_e}'] = '=' + code
                last = row_e + 50
                cells_['B1'] = 'x'
                forms = {f'=SUM(A1:A{last})': code,
                         f'=AVERAGE(A1:A{last})': code,
                         f'=MAX(A1:A{last})': code, f'=MIN(A1:A{last})': code,
                         f'=ISERROR(SUM(A1:A{last}))': True,
                         f'=SUM(A1:A{last})+1': code}
                outs = subject.eval_batch(list(forms), cells_)
                for (text, want), got in zip(forms.items(), outs):
                    ctx.event('aggregate_cases')
                    ctx.event('error_below_gap_cases')
                    ctx.case(('error-below-gap', gap, code, text[:6]))
                    wn = ('bool', True) if want is True else ('err', want)
                    if got != ('value', wn):
                        ctx.fail(f'{text} with numbers in A1:A20, {code} in '
                                 f'A{row_e} ({gap} empty cells in between): '
                                 f'observed {got}, expected {wn}',
                                 {'formula': text, 'gap': gap, 'code': code,
                                  'observed': got},
                                 monitor='propagation',
                                 group=f'error-below-gap:{gap}')

    # ---- E. a cell whose formula yields an error stores and hands it on ----
    if sh == 0:
        from xlcalculator import Evaluator
        for code in ERROR_CODES:
            for sp, et in err_formulas(code):
                cells = {'A1': '=' + et, 'B1': '=A1+1', 'C1': '=B1*2',
                         'D1': '=SUM(C1,1)', 'E1': '=ISERROR(D1)',
                         'F1': '=A1&"x"'}
                try:
                    model = subject.compile_dict(cells)
                    ev = Evaluator(model)
                    outs = {k: subject.outcome_of(
                        lambda k=k: ev.evaluate('Sheet1!' + k))
                        for k in ('D1', 'F1', 'E1')}
                    stored = {k: monitors.norm(ev.get_cell_value('Sheet1!' + k))
                              for k in ('A1', 'B1', 'C1', 'D1')}
                except Exception as e:  # noqa
                    outs = {'D1': ('raised', repr(e)[:200])}
                    stored = {}
                ctx.event('stored_error_cases')
                ctx.case(('stored', code, sp))
                want = ('err', code)
                bad = []
                if outs.get('D1') != ('value', want):
                    bad.append(f'dependant D1 -> {outs.get("D1")}')
                if outs.get('F1') != ('value', want):
                    bad.append(f'dependant F1 -> {outs.get("F1")}')
                if outs.get('E1') != ('value', ('bool', True)):
                    bad.append(f'ISERROR(D1) -> {outs.get("E1")}')
                for k in ('A1', 'B1', 'C1', 'D1'):
                    if stored.get(k) != want:
                        bad.append(f'stored {k} = {stored.get(k)}')
                if bad:
                    ctx.fail(f'cells {cells}: expected {code} stored and '
                             f'handed on; ' + '; '.join(bad),
                             {'cells': cells, 'outs': outs, 'stored': stored},
                             monitor='stored-and-handed-on')

        # ---- E1. the same from a workbook FILE as Excel saves it: every
        # formula cell carries its cached result (an error is cached as its
        # code, t="e"); cells are evaluated precedent first and dependants
        # first -------------------------------------------------------------
        import os as _os
        from vlib import bootstrap as _bs, xlsxw as _xw
        from xlcalculator import ModelCompiler as _MC
        sources = [(c, c) for c in ERROR_CODES] + [
            ('#DIV/0!', '1/0'), ('#VALUE!', '"a"*2'), ('#NUM!', '(-1)^0.5'),
            ('#DIV/0!', '(1/0)'), ('#N/A', 'NA()'), ('#NUM!', 'SQRT(-1)'),
            ('#VALUE!', '1+"x"')]
        path = _os.path.join(_bs.VERIF, 'out', 'c07', 'cached.xlsx')
        _os.makedirs(_os.path.dirname(path), exist_ok=True)
        sb = _xw.SheetBuilder()
        for i, (code, et) in enumerate(sources, start=1):
            sb.put_formula('Sheet1', 1, i, '=' + et, cached=code, ctype='e')
            sb.put_formula('Sheet1', 2, i, f'=A{i}+1', cached=code, ctype='e')
            sb.put_formula('Sheet1', 3, i, f'=ISERROR(A{i})', cached='1',
                           ctype='b')
            sb.put_formula('Sheet1', 4, i, f'=SUM(A{i}:A{i},1)', cached=code,
                           ctype='e')
            sb.put_formula('Sheet1', 5, i, f'="<"&A{i}&">"', cached=code,
                           ctype='e')
        sb.write(path)
        for order in ('precedent first', 'dependants first'):
            try:
                ev = Evaluator(_MC().read_and_parse_archive(path))
            except Exception as e:  # noqa
                ctx.fail(f'loading a workbook with cached error results '
                         f'raised {e!r}', {'formulas': sources},
                         monitor='stored-and-handed-on', group='cached-load')
                break
            for i, (code, et) in enumerate(sources, start=1):
                cols = 'ABCDE' if order == 'precedent first' else 'EDCBA'
                want = {'A': ('err', code), 'B': ('err', code),
                        'C': ('bool', True), 'D': ('err', code),
                        'E': ('err', code)}
                bad = []
                for c in cols:
                    got = subject.outcome_of(
                        lambda: ev.evaluate(f'Sheet1!{c}{i}'))
                    ctx.event('stored_error_cases')
                    ctx.event('cached_error_cases')
                    if got != ('value', want[c]):
                        bad.append(f'{c}{i} -> {got}, expected {want[c]}')
                ctx.case(('cached-error', code, et, order))
                if bad:
                    ctx.fail(f'workbook file with A{i} ={et} (cached result '
                             f'{code}), cells evaluated {order}: '
                             + '; '.join(bad),
                             {'formula': '=' + et, 'cached': code,
                              'order': order, 'problems': bad},
                             monitor='stored-and-handed-on',
                             group=f'cached:{order}:{bad[0][:1]}')
        try:
            _os.remove(path)
        except OSError:
            pass

        # ---- E2. a cell changes between a value and an error -----------------
        # one Evaluator; the input is re-assigned so that the same formula
        # yields a value, then an error, then a value again; and error values
        # travel with the model (assigned as objects, deep copy, JSON, extract)
        import os
        from vlib import bootstrap, build
        producers = [
            ('#DIV/0!', '=1/A1', 4, 0, ('num', 0.25)),
            ('#NUM!', '=SQRT(A1)', 4, -1, ('num', 2.0)),
            ('#VALUE!', '=A1+1', 4, 'abc', ('num', 5.0)),
            ('#N/A', '=IF(A1>0,A1>1,NA())', 4, 0, ('bool', True)),
            ('#REF!', '=IF(A1>0,"ok",#REF!)', 4, 0, ('text', 'ok')),
            ('#DIV/0!', '=IF(A1>0,DATE(2020,1,A1),1/0)', 4, 0,
             ('num', 43834.0)),
            ('#NAME?', '=IF(A1>0,A2,#NAME?)', 4, 0, ('blank',)),
        ]
        scratch = os.path.join(bootstrap.VERIF, 'out', 'c07', 'm.json')
        for code, formula, good, badv, good_out in producers:
            cells = {'A1': good, 'B1': formula, 'C1': '=B1+1',
                     'D1': '=SUM(B1:B1,1)', 'E1': '=ISERROR(B1)',
                     'F1': '=B1&"x"'}
            want_err = ('value', ('err', code))
            try:
                model = subject.compile_dict(cells)
            except Exception as e:  # noqa
                ctx.fail(f'compiling {cells} raised {e!r}', {'cells': cells},
                         monitor='construction', group='compile')
                continue
            ev = Evaluator(model)
            bad = []

            def state(tag, is_err, ev=ev):
                outs = {k: subject.outcome_of(
                    lambda k=k: ev.evaluate('Sheet1!' + k))
                    for k in ('B1', 'C1', 'D1', 'E1', 'F1')}
                ctx.event('transition_evaluations', len(outs))
                if is_err:
                    for k in ('B1', 'C1', 'D1', 'F1'):
                        if outs[k] != want_err:
                            bad.append(f'[{tag}] {k} -> {outs[k]}, expected '
                                       f'{code}')
                    if outs['E1'] != ('value', ('bool', True)):
                        bad.append(f'[{tag}] ISERROR(B1) -> {outs["E1"]}')
                    st = monitors.norm(ev.get_cell_value('Sheet1!B1'))
                    if st != ('err', code):
                        bad.append(f'[{tag}] stored B1 = {st}')
                else:
                    ok_b = outs['B1'] == ('value', good_out) or (
                        good_out[0] == 'num' and outs['B1'][0] == 'value'
                        and outs['B1'][1][0] in ('num', 'date'))
                    if not ok_b:
                        bad.append(f'[{tag}] B1 -> {outs["B1"]}, expected '
                                   f'{good_out}')
                    if outs['E1'] != ('value', ('bool', False)):
                        bad.append(f'[{tag}] ISERROR(B1) -> {outs["E1"]}')
                    for k in ('C1', 'D1', 'F1'):
                        if outs[k][0] == 'raised':
                            bad.append(f'[{tag}] {k} -> {outs[k]}')
            try:
                state('first, value', False)
                ev.set_cell_value('Sheet1!A1', badv)
                state('input re-assigned: error', True)
                # the model travels: the stored errors go with it
                for prov in ('deepcopy', 'json', 'extracted'):
                    try:
                        m2 = build.derive(model, prov, scratch)
                        state(f'{prov} model holding the stored error', True,
                              ev=Evaluator(m2))
                    except Exception as e:  # noqa
                        bad.append(f'[{prov}] deriving the model with a '
                                   f'stored {code} raised '
                                   f'{type(e).__name__}: {str(e)[:120]}')
                ev.set_cell_value('Sheet1!A1', good)
                state('input re-assigned: value again', False)
                # an error value assigned to the input as an object
                ev.set_cell_value('Sheet1!A1', mkerr(code))
                state('error object assigned to the input A1', True)
            except Exception as e:  # noqa
                bad.append(f'sequence raised {type(e).__name__}: '
                           f'{str(e)[:160]}')
            ctx.event('stored_error_cases')
            ctx.case(('transition', code, formula))
            if bad:
                ctx.fail(f'cells {cells}, A1 {good!r} -> {badv!r} -> '
                         f'{good!r}: ' + '; '.join(bad[:4]),
                         {'cells': cells, 'bad_input': repr(badv),
                          'problems': bad[:12]},
                         monitor='stored-and-handed-on',
                         group=f'transition:{code}:{bad[0][:30]}')

        # ---- F. IS*/NA truth table ---------------------------------------
        nonerr = {'number': 1.5, 'zero': 0, 'text': 'abc', 'numtext': '12',
                  'bool': True, 'blank': None,
                  # texts that merely READ like error values are texts
                  'text-#N/A': '#N/A', 'text-#DIV/0!': '#DIV/0!',
                  'text-#VALUE!': '#VALUE!'}
        table = []
        for code in ERROR_CODES:
            table.append(('ISERROR', ('err', code), True))
            table.append(('ISERR', ('err', code), code != '#N/A'))
            table.append(('ISNA', ('err', code), code == '#N/A'))
        for tn, v in nonerr.items():
            table.append(('ISERROR', v, False))
            table.append(('ISERR', v, False))
            table.append(('ISNA', v, False))
            table.append(('ISNUMBER', v, tn in ('number', 'zero')))
            table.append(('ISTEXT', v, tn in ('text', 'numtext') or
                          tn.startswith('text-')))
            table.append(('ISBLANK', v, tn == 'blank'))
        for fname, v, want in table:
            lv = mkerr(v[1]) if isinstance(v, tuple) else v
            got = monitors.call_outcome(F[fname], lv)
            ctx.event('truth_table_cases')
            ctx.case((fname, repr(v), 'lib'))
            if got != ('value', ('bool', want)):
                ctx.fail(f'{fname}({v!r}) [library]: observed {got}, expected '
                         f'{want}', {'function': fname, 'arg': repr(v),
                                     'observed': got}, monitor='truth-table')
            for tv in ((True, False) if not isinstance(v, tuple) else ()):
                pass
        # formula spelling of the truth table + "without altering it"
        inputs, texts, wants = {}, [], []
        row = 1
        for fname, v, want in table:
            a = f'A{row}'
            row += 1
            if isinstance(v, tuple):
                inputs[a] = '=' + v[1]
            elif v is not None:
                inputs[a] = v
            texts.append(f'={fname}({a})')
            wants.append((fname, v, want, a))
        texts.append('=NA()')
        outs = subject.eval_batch(texts, inputs)
        for (fname, v, want, a), got in zip(wants, outs):
            ctx.event('truth_table_cases')
            ctx.case((fname, repr(v), 'formula'))
            if got != ('value', ('bool', want)):
                ctx.fail(f'={fname}({a}) with {a}={v!r}: observed {got}, '
                         f'expected {want}', {'function': fname,
                                              'arg': repr(v), 'observed': got},
                         monitor='truth-table')
        if outs[-1] != ('value', ('err', '#N/A')):
            ctx.fail(f'=NA() observed {outs[-1]}', {'observed': outs[-1]},
                     monitor='truth-table')
        got = monitors.call_outcome(F['NA'])
        if got != ('value', ('err', '#N/A')):
            ctx.fail(f'NA() observed {got}', {'observed': got},
                     monitor='truth-table')


def kf_sumproduct(got):
    # mechanism: SUMPRODUCT reports #N/A for whatever error its ranges hold
    if got == ('value', ('err', '#N/A')):
        return 'KF-C07-02'
    return None


def R3():
    return [[1.0], [2.0], [3.0]]


def classify_function_error(name, pos, got):
    """Known-finding attribution for 'error argument not handed through':
    feature = the callee, signature = the exact outcome that mechanism
    gives."""
    if name in ('NOT',) and got == ('value', ('bool', False)):
        return 'KF-C07-03'
    if name == 'IF' and pos == 0 and got == ('value', ('num', 1.0)):
        return 'KF-C07-03'
    if name in ('AND', 'OR') and got[0] == 'value' and got[1][0] == 'bool':
        return 'KF-C07-03'
    return None
