"""C15 — criteria counting and lookups agree with a linear scan of the range.

Events: Evaluator.evaluate of the COUNTIF/COUNTIFS/MATCH/VLOOKUP/CHOOSE formula
(decides) and the same calls through xl.FUNCTIONS; the truth table of the
internal criteria parser is recorded as diagnosis only.
Oracle: pure-Python scan written from the statement.
"""
from vlib import monitors, ref, subject

PROPERTY = 'C15'
RULE = ('columns of <= 10 numbers/texts (no blanks), tables <= 10x4; every '
        'criterion form (plain value, = <> < <= > >= prefix) x operand in '
        '{int, negative, decimal, text}; COUNTIFS with 1-3 criteria; lookup '
        'keys at every position, duplicated, absent, in other letter case; '
        'every column index -1..n+1; every CHOOSE index -1..n+1; exact and '
        'approximate MATCH on ascending data with duplicates.  non-trivial = '
        'the scan result differs from the result of the same criterion with '
        'another operator / the key occurs more than once or not at all; '
        'distinct by (function, operator, operand class, position class)')
ASSUMPTIONS = [
    'not generated (statement silent): wildcards (* ? ~) in data or '
    'criteria; booleans and numeric-looking text only as lookup keys / '
    'values of exact MATCH and VLOOKUP (a text does not equal the number it '
    'spells); empty cells only in '
    'layouts whose verdict does not depend on what an empty cell satisfies '
    '(same count wherever the empty cells sit; conjunctions decided by the '
    'other column); approximate MATCH only '
    'on ascending numbers; VLOOKUP only with exact match',
    'SUMIF/SUMIFS are monitored only when the installed pandas can run them '
    '(DataFrame.applymap); otherwise reported as not supported, as the '
    'statement allows',
]
FLOORS = {'countif_cases': 1000, 'countifs_cases': 200, 'match_cases': 500,
          'vlookup_cases': 500, 'choose_cases': 100,
          'operator_prefixes_seen': 6, 'library_calls': 500,
          'countifs_rectangles': 100, 'choose_with_ranges': 100,
          'criteria_vs_operator_cases': 50,
          'approximate_text_matches': 100,
          'lookup_history_cases': 300, 'empty_operand_criteria': 150,
          'empty_cells_in_range_cases': 300,
          'float_lookalike_operand_cases': 50,
          'text_is_not_its_number_cases': 40, 'choose_254_cases': 20}
ANCHOR_FUNCS = {
    'xlcalculator/xlfunctions/lookup.py': ['MATCH', 'VLOOKUP', 'CHOOSE'],
    'xlcalculator/xlfunctions/statistics.py': ['COUNTIF', 'COUNTIFS'],
    'xlcalculator/xlfunctions/xlcriteria.py': ['parse_criteria'],
}
TIMEOUT = {'quick': 600, 'thorough': 3000}

OPS = ['', '=', '<>', '<', '<=', '>', '>=']
WORDS = ['apple', 'Banana', 'cherry', 'date', 'Elder', 'fig', 'grape',
         'APPLE', 'banana', 'kiwi', 'two\nlines', 'two', 'two\nwords']
S = 'Sheet1'
F4 = (False,) * 4


def shards(tier):
    return 16


def is_num(v):
    return isinstance(v, (int, float)) and not isinstance(v, bool)


def crit_holds(cell, op, operand):
    """the statement's criterion semantics"""
    same = (is_num(cell) and is_num(operand)) or (
        isinstance(cell, str) and isinstance(operand, str))
    if op in ('', '='):
        if not same:
            return False
        return cell == operand if is_num(cell) else \
            cell.upper() == operand.upper()
    if op == '<>':
        return not crit_holds(cell, '=', operand)
    if not same:
        return False          # ordering only matches the operand's own type
    a, b = (cell, operand) if is_num(cell) else (cell.upper(),
                                                 operand.upper())
    return {'<': a < b, '<=': a <= b, '>': a > b, '>=': a >= b}[op]


def crit_text(op, operand):
    if is_num(operand):
        t = subject.lit(abs(operand))
        if operand < 0:
            t = '-' + t
    else:
        t = operand
    return op + t


def values_equal(a, b):
    if is_num(a) and is_num(b):
        return a == b
    if isinstance(a, str) and isinstance(b, str):
        return a.upper() == b.upper()
    return False


def norm_of(v):
    if is_num(v):
        return ('num', float(v))
    return ('text', v)


class Batch:
    def __init__(self, ctx, judge):
        self.ctx, self.judge = ctx, judge
        self.reset()

    def reset(self):
        self.cells, self.items, self.row = {}, [], 1

    def place(self, matrix):
        r1 = self.row
        for i, row in enumerate(matrix):
            for j, v in enumerate(row):
                self.cells[f'{ref.col_letters(1 + j)}{r1 + i}'] = v
        self.row += len(matrix) + 1
        return (f'A{r1}:{ref.col_letters(len(matrix[0]))}'
                f'{r1 + len(matrix) - 1}')

    def add(self, text, meta):
        self.items.append((text, meta))

    def maybe_flush(self):
        # only between cases: a flush clears the placed data
        if len(self.items) >= 250:
            self.flush()

    def flush(self):
        if self.items:
            outs = subject.eval_batch([t for t, _ in self.items], self.cells)
            for (text, meta), got in zip(self.items, outs):
                self.judge(text, meta, got)
        self.reset()


def run(ctx):
    import pandas
    from xlcalculator.xlfunctions import xl, func_xltypes as T
    F = xl.FUNCTIONS
    rng = ctx.rng
    thorough = ctx.tier == 'thorough'
    ops_seen = set()
    if not hasattr(pandas.DataFrame, 'applymap'):
        ctx.note('SUMIF/SUMIFS not monitored: the installed pandas has no '
                 'DataFrame.applymap (reported as not supported)')

    def judge(text, meta, got):
        want = meta['want']
        ctx.event(meta['counter'])
        ctx.case(meta.get('nt'))
        if want == 'error':
            ok = got[0] == 'value' and got[1][0] == 'err'
        else:
            ok = got == ('value', want)
        if ctx.want_sample() and rng.random() < 0.003:
            ctx.sample({'formula': text, 'data': meta.get('data'),
                        'observed': got, 'reference': want})
        if not ok:
            ctx.fail(f'{text} over {meta.get("data")}: observed {got}, scan '
                     f'gives {want}', {'formula': text,
                                       'data': meta.get('data'),
                                       'observed': got, 'reference': want},
                     monitor='linear-scan',
                     group=f'{meta["group"]}:{got[0]}:'
                           f'{got[1][0] if got[0] == "value" else got[1][:12]}')

    B = Batch(ctx, judge)
    N = (6000 if thorough else 400) // ctx.nshards

    def gen_column(kind=None):
        n = rng.randint(1, 10)
        kind = kind or rng.choice(['num', 'text', 'mixed'])
        close_keys = kind == 'num' and rng.random() < 0.2
        if close_keys:
            ctx.event('columns_of_close_keys')
        col = []
        for _ in range(n):
            if kind == 'num' and close_keys:
                # keys that agree in their first 15 significant digits
                col.append(rng.choice([1234567890123456, 1234567890123457,
                                       1234567890123458, 0.1 + 0.2, 0.3,
                                       0.30000000000000010, 1e15 + 0.5,
                                       1e15 + 0.25]))
            elif kind == 'num' or (kind == 'mixed' and rng.random() < 0.5):
                col.append(rng.choice([0, 1, 2, 3, 5, 10, -1, -2.5, 2.5, 7,
                                       100, -10, 0.5]))
            else:
                col.append(rng.choice(WORDS))
        return col

    for _ in range(N):
        B.maybe_flush()
        # ---- COUNTIF: every operator x operand class -----------------------
        col = gen_column()
        rg = B.place([[v] for v in col])
        operands = [rng.choice([1, 2, 5, 0, 10]), rng.choice([-1, -2.5, -10]),
                    rng.choice([2.5, 0.5]), rng.choice(WORDS),
                    rng.choice(col)]
        for operand in operands:
            counts = {op: sum(1 for c in col if crit_holds(c, op, operand))
                      for op in OPS}
            for op in OPS:
                ops_seen.add(op)
                want = ('num', float(counts[op]))
                ocls = 'text' if isinstance(operand, str) else (
                    'neg' if operand < 0 else ('dec' if isinstance(
                        operand, float) else 'int'))
                nt = ('COUNTIF', op, ocls, counts[op] > 0) if len(
                    set(counts.values())) > 1 else None
                ct = crit_text(op, operand)
                B.add(f'=COUNTIF({rg},{subject.lit(ct)})',
                      {'want': want, 'counter': 'countif_cases', 'nt': nt,
                       'data': col, 'group': f'COUNTIF:{op}:{ocls}'})
                if op == '' and is_num(operand):
                    # the criterion given as a number, not as text
                    lt = subject.lit(abs(operand))
                    B.add(f'=COUNTIF({rg},{"-" + lt if operand < 0 else lt})',
                          {'want': want, 'counter': 'countif_cases',
                           'nt': ('COUNTIF', 'number-criterion', ocls),
                           'data': col, 'group': f'COUNTIF:number:{ocls}'})
                if rng.random() < 0.1:
                    got = monitors.call_outcome(
                        F['COUNTIF'], T.Array([[v] for v in col]), ct)
                    ctx.event('library_calls')
                    judge(f'COUNTIF(library, {ct!r})',
                          {'want': want, 'counter': 'countif_cases',
                           'data': col, 'group': f'COUNTIF-lib:{op}:{ocls}'},
                          got)
        B.maybe_flush()
        # ---- a bare comparison prefix: the operand is the empty text (no cell
        # of these columns holds one: zeros are numbers, not "nothing") -------
        colz = [0, 0.0, rng.choice([1, 2.5, -1]), rng.choice(WORDS),
                rng.choice(WORDS), rng.choice([0, 10])]
        rng.shuffle(colz)
        colz = colz[:rng.randint(2, 6)]
        rgz = B.place([[v] for v in colz])
        for op in OPS:
            nz = sum(1 for c in colz if crit_holds(c, op, ''))
            ctx.event('empty_operand_criteria')
            B.add(f'=COUNTIF({rgz},{subject.lit(op)})',
                  {'want': ('num', float(nz)), 'counter': 'countif_cases',
                   'nt': ('COUNTIF', 'empty-operand', op, nz > 0),
                   'data': colz, 'group': f'COUNTIF:empty-operand:{op}'})
            if op in ('=', '<>', ''):
                other = [rng.choice([1, 2, 0]) for _ in colz]
                rgo = B.place([[v] for v in other])
                n2 = sum(1 for c, o in zip(colz, other)
                         if crit_holds(c, op, '') and crit_holds(o, '>=', 1))
                B.add(f'=COUNTIFS({rgz},{subject.lit(op)},{rgo},">=1")',
                      {'want': ('num', float(n2)),
                       'counter': 'countifs_cases',
                       'nt': ('COUNTIFS', 'empty-operand', op, n2 > 0),
                       'data': [colz, other],
                       'group': f'COUNTIFS:empty-operand:{op}'})
        B.maybe_flush()
        # ---- COUNTIFS: conjunction position by position ------------------------
        n = rng.randint(2, 8)
        k = rng.randint(1, 3)
        cols = [[rng.choice([1, 2, 3, 5, -1, 10]) if rng.random() < 0.6 or
                 j == 0 else rng.choice(WORDS[:5]) for _ in range(n)]
                for j in range(k)]
        # COUNTIFS needs column ranges side by side
        rgs = []
        r1 = B.row
        for j, c in enumerate(cols):
            for i, v in enumerate(c):
                B.cells[f'{ref.col_letters(1 + j)}{r1 + i}'] = v
            rgs.append(f'{ref.col_letters(1 + j)}{r1}:'
                       f'{ref.col_letters(1 + j)}{r1 + n - 1}')
        B.row += n + 1
        crits = []
        for c in cols:
            op = rng.choice(OPS)
            operand = rng.choice(c) if rng.random() < 0.7 else rng.choice(
                [2, -1, 'apple'])
            crits.append((op, operand))
        count = sum(1 for i in range(n)
                    if all(crit_holds(cols[j][i], *crits[j])
                           for j in range(k)))
        args = ','.join(f'{rgs[j]},{subject.lit(crit_text(*crits[j]))}'
                        for j in range(k))
        B.add(f'=COUNTIFS({args})',
              {'want': ('num', float(count)), 'counter': 'countifs_cases',
               'nt': ('COUNTIFS', k, tuple(c[0] for c in crits), count > 0),
               'data': cols, 'group': f'COUNTIFS:{k}'})
        B.maybe_flush()
        # ---- COUNTIFS over rows and rectangles (read row by row) ---------------------
        rows_, cols_ = rng.choice([(1, 4), (1, 6), (2, 3), (3, 2), (2, 2),
                                   (4, 1)])
        n2 = rows_ * cols_
        k2 = rng.randint(2, 3)
        flats = [[rng.choice([1, 2, 3, 5, -1, 10]) if rng.random() < 0.7 or
                  j == 0 else rng.choice(WORDS[:5]) for _ in range(n2)]
                 for j in range(k2)]
        rgs2 = [B.place([f[r * cols_:(r + 1) * cols_] for r in range(rows_)])
                for f in flats]
        crits2 = []
        for f in flats:
            crits2.append((rng.choice(OPS), rng.choice(f)
                           if rng.random() < 0.8 else rng.choice([2, -1])))
        count2 = sum(1 for i in range(n2)
                     if all(crit_holds(flats[j][i], *crits2[j])
                            for j in range(k2)))
        args2 = ','.join(f'{rgs2[j]},{subject.lit(crit_text(*crits2[j]))}'
                         for j in range(k2))
        B.add(f'=COUNTIFS({args2})',
              {'want': ('num', float(count2)), 'counter': 'countifs_cases',
               'nt': ('COUNTIFS-2d', rows_, cols_, k2,
                      tuple(c[0] for c in crits2), count2 > 0),
               'data': flats, 'group': f'COUNTIFS-2d:{rows_}x{cols_}:{k2}'})
        ctx.event('countifs_rectangles')
        B.maybe_flush()
        # ---- MATCH exact ----------------------------------------------------------
        col = gen_column(rng.choice(['num', 'text']))
        rg = B.place([[v] for v in col])
        keys = list(dict.fromkeys(col))[:4] + [rng.choice([42, 'zebra'])]
        if isinstance(col[0], str):
            keys.append(col[0].swapcase())
        for key in keys:
            pos = next((i + 1 for i, v in enumerate(col)
                        if values_equal(v, key)), None)
            want = ('num', float(pos)) if pos else 'error'
            kl = subject.lit(key) if not (is_num(key) and key < 0) else \
                '-' + subject.lit(-key)
            dup = sum(1 for v in col if values_equal(v, key))
            B.add(f'=MATCH({kl},{rg},0)',
                  {'want': want, 'counter': 'match_cases',
                   'nt': ('MATCH-exact', 'absent' if not pos else
                          ('dup' if dup > 1 else 'single'),
                          isinstance(key, str)),
                   'data': col, 'group': 'MATCH-exact:' + (
                       'absent' if not pos else ('dup' if dup > 1
                                                 else 'single'))})
        B.maybe_flush()
        # ---- MATCH approximate on ascending numbers -------------------------------
        asc = sorted(rng.choice([1, 2, 3, 5, 8, 13, 21, -4, 0, 2.5])
                     for _ in range(rng.randint(1, 9)))
        rg = B.place([[v] for v in asc])
        for key in (asc[0] - 1, asc[0], asc[-1], asc[-1] + 1,
                    rng.choice(asc), rng.choice(asc) + 0.25):
            pos = max((i + 1 for i, v in enumerate(asc) if v <= key),
                      default=None)
            want = ('num', float(pos)) if pos else ('err', '#N/A')
            kl = subject.lit(key) if key >= 0 else '-' + subject.lit(-key)
            dup = asc.count(key)
            for form in (f'=MATCH({kl},{rg},1)', f'=MATCH({kl},{rg})'):
                B.add(form, {'want': want, 'counter': 'match_cases',
                             'nt': ('MATCH-approx', 'below' if not pos else
                                    ('dup' if dup > 1 else
                                     ('between' if dup == 0 else 'hit'))),
                             'data': asc,
                             'group': 'MATCH-approx:' + (
                                 'below' if not pos else
                                 ('dup' if dup > 1 else 'plain'))})
        B.maybe_flush()
        # ---- MATCH approximate on ascending TEXTS (ascending in the case-
        # insensitive order the comparison operators use) ------------------------
        pool_t = ['apple', 'Banana', 'cherry', 'Date', 'elder', 'Fig',
                  'grape', 'Kiwi']
        asc_t = sorted(rng.sample(pool_t, rng.randint(2, 7)),
                       key=lambda t: t.lower())
        rg_t = B.place([[v] for v in asc_t])
        for key in (asc_t[0], asc_t[-1], rng.choice(asc_t).upper(),
                    rng.choice(asc_t).lower(), 'coconut', 'zebra'):
            pos = max((i + 1 for i, v in enumerate(asc_t)
                       if v.lower() <= key.lower()), default=None)
            want = ('num', float(pos)) if pos else ('err', '#N/A')
            for form in (f'=MATCH({subject.lit(key)},{rg_t},1)',
                         f'=MATCH({subject.lit(key)},{rg_t})'):
                B.add(form, {'want': want, 'counter': 'match_cases',
                             'nt': ('MATCH-approx-text', bool(pos),
                                    key.lower() in [t.lower()
                                                    for t in asc_t]),
                             'data': asc_t, 'group': 'MATCH-approx-text'})
            ctx.event('approximate_text_matches')
        B.maybe_flush()
        # ---- VLOOKUP exact, every column index ---------------------------------------
        nrows, ncols = rng.randint(1, 10), rng.randint(1, 4)
        keykind = rng.choice(['num', 'text'])
        keys_col = gen_column(keykind)[:nrows]
        while len(keys_col) < nrows:
            keys_col.append(rng.choice(keys_col))
        table = [[keys_col[i]] + [rng.choice([rng.randint(100, 999),
                                              'v%d' % rng.randint(0, 99)])
                                  for _ in range(ncols - 1)]
                 for i in range(nrows)]
        rg = B.place(table)
        lookups = list(dict.fromkeys(keys_col))[:3] + [
            4242 if keykind == 'num' else 'zebra']
        if keykind == 'text':
            lookups.append(keys_col[-1].swapcase())
        for key in lookups:
            row = next((r for r in table if values_equal(r[0], key)), None)
            dup = sum(1 for r in table if values_equal(r[0], key))
            kl = subject.lit(key) if not (is_num(key) and key < 0) else \
                '-' + subject.lit(-key)
            for ci in range(-1, ncols + 2):
                if row is None and 1 <= ci <= ncols:
                    want = ('err', '#N/A')
                elif not (1 <= ci <= ncols):
                    want = 'error'
                else:
                    want = norm_of(row[ci - 1])
                cl = str(ci) if ci >= 0 else f'-{-ci}'
                B.add(f'=VLOOKUP({kl},{rg},{cl},FALSE)',
                      {'want': want, 'counter': 'vlookup_cases',
                       'nt': ('VLOOKUP', 'absent' if row is None else
                              ('dup' if dup > 1 else 'single'),
                              'col-out' if not (1 <= ci <= ncols) else
                              ('key-col' if ci == 1 else
                               ('next' if ci == 2 else 'far')),
                              keykind),
                       'data': table,
                       'group': 'VLOOKUP:' + (
                           'absent' if row is None else
                           ('dup' if dup > 1 else 'single')) + ':' + (
                               'col-out' if not (1 <= ci <= ncols) else
                               ('c1' if ci == 1 else ('c2' if ci == 2
                                                      else 'c3+')))})
        B.maybe_flush()
        # ---- CHOOSE -----------------------------------------------------------------------
        n = rng.randint(1, 6)
        vals = [rng.choice([rng.randint(0, 99), 'w%d' % rng.randint(0, 9)])
                for _ in range(n)]
        for i in range(-1, n + 2):
            want = norm_of(vals[i - 1]) if 1 <= i <= n else ('err', '#VALUE!')
            il = str(i) if i >= 0 else f'-{-i}'
            B.add(f'=CHOOSE({il},' + ','.join(subject.lit(v) for v in vals)
                  + ')', {'want': want, 'counter': 'choose_cases',
                          'nt': ('CHOOSE', n, 'in' if 1 <= i <= n else
                                 ('zero' if i == 0 else
                                  ('neg' if i < 0 else 'beyond'))),
                          'data': vals, 'group': 'CHOOSE:' + (
                              'in' if 1 <= i <= n else 'out')})
        # CHOOSE among values that are ranges: the index counts ARGUMENTS
        nv = rng.randint(1, 3)
        rg_a = B.place([[rng.randint(1, 9)] for _ in range(3)])
        rg_b = B.place([[rng.randint(1, 9), rng.randint(1, 9)]])
        scal = [rng.randint(10, 99) for _ in range(nv)]
        layouts = [[rg_a] + [subject.lit(v) for v in scal],
                   [subject.lit(v) for v in scal] + [rg_b],
                   [rg_a, rg_b] + [subject.lit(v) for v in scal]]
        vals_ = rng.choice(layouts)
        nargs = len(vals_)
        for i in list(range(1, nargs + 1)) + [nargs + 1, nargs + 2,
                                              nargs + 3]:
            if 1 <= i <= nargs and ':' in vals_[i - 1]:
                continue        # the value is a range: not a scalar result
            want = ('num', float(vals_[i - 1])) if i <= nargs \
                else ('err', '#VALUE!')
            B.add(f'=CHOOSE({i},' + ','.join(vals_) + ')',
                  {'want': want, 'counter': 'choose_cases',
                   'nt': ('CHOOSE-ranges', nargs, 'in' if i <= nargs
                          else 'beyond', i - nargs),
                   'data': vals_, 'group': 'CHOOSE-ranges:' + (
                       'in' if i <= nargs else 'out')})
            ctx.event('choose_with_ranges')
        B.maybe_flush()
    B.flush()
    # ---- empty cells inside a range (the statement does not say whether an
    # empty cell satisfies "<>7"; it does say "position by position"): where
    # the empty cells sit - at the end, in the middle, at the start - changes
    # neither a count nor which positions belong together -------------------
    if ctx.shard in (2, 3, 4) or thorough:
        for round_ in range(30 if thorough else 6):
            vals = [rng.choice([7, 7, 3, 'x', 'apple', 12]) for _ in range(3)]
            tags = [rng.choice(['x', 'y']) for _ in range(3)]
            layouts = {'end': vals + [None, None], 'middle': [vals[0], None,
                                                              None] + vals[1:],
                       'start': [None, None] + vals}
            tag_l = {'end': tags + ['y', 'y'],
                     'middle': [tags[0], 'y', 'y'] + tags[1:],
                     'start': ['y', 'y'] + tags}
            want_pairs = sum(1 for v, t in zip(vals, tags)
                             if crit_holds(v, '<>', 7) and t == 'x')
            seen = {}
            for lname in ('end', 'middle', 'start'):
                cells = {}
                for i, (v, t) in enumerate(zip(layouts[lname], tag_l[lname]),
                                           start=1):
                    if v is not None:
                        cells[f'A{i}'] = v
                    cells[f'B{i}'] = t
                forms = ['=COUNTIF(A1:A5,"<>7")', '=COUNTIF(A1:A5,"")',
                         '=COUNTIF(A1:A5,"<>x")', '=COUNTIF(A1:A5,7)',
                         '=COUNTIFS(A1:A5,"<>7",B1:B5,"x")',
                         '=COUNTIFS(B1:B5,"x",A1:A5,"<>7")',
                         '=COUNTIFS(A1:A5,7,B1:B5,"y")']
                outs = subject.eval_batch(forms, cells)
                for f_, got in zip(forms, outs):
                    ctx.event('empty_cells_in_range_cases')
                    ctx.case(('empty-cells', lname, f_))
                    first = seen.setdefault(f_, (lname, got))
                    if got != first[1]:
                        ctx.fail(f'{f_} over {layouts[lname]} / '
                                 f'{tag_l[lname]} (empty cells at the '
                                 f'{lname}) -> {got}; with the empty cells at '
                                 f'the {first[0]} -> {first[1]}',
                                 {'formula': f_, 'A': layouts[lname],
                                  'B': tag_l[lname], 'observed': got,
                                  'other_layout': first},
                                 monitor='linear-scan',
                                 group='empty-cells:position')
                    if 'COUNTIFS(A1:A5,"<>7"' in f_ or \
                            'COUNTIFS(B1:B5,"x",A1' in f_:
                        if got != ('value', ('num', float(want_pairs))):
                            ctx.fail(f'{f_} over A={layouts[lname]}, '
                                     f'B={tag_l[lname]} -> {got}, position by '
                                     f'position {want_pairs} rows hold both '
                                     f'(the rows with an empty A carry "y")',
                                     {'formula': f_, 'A': layouts[lname],
                                      'B': tag_l[lname], 'observed': got,
                                      'reference': want_pairs},
                                     monitor='linear-scan',
                                     group='empty-cells:pairs')
            # lookups: keys in the filled part are found where they are
            col = [rng.choice(WORDS[:6]) for _ in range(3)]
            cells = {f'D{i + 1}': v for i, v in enumerate(col)}
            cells.update({f'E{i + 1}': 10 * (i + 1) for i in range(3)})
            key = rng.choice(col)
            pos = col.index(key) + 1
            forms = {f'=MATCH({subject.lit(key)},D1:D6,0)': ('num', float(pos)),
                     f'=VLOOKUP({subject.lit(key)},D1:E6,2,FALSE)':
                         ('num', float(10 * pos)),
                     '=MATCH("zebra",D1:D6,0)': ('err', '#N/A'),
                     f'=COUNTIF(D1:D6,{subject.lit(key)})':
                         ('num', float(col.count(key)))}
            outs = subject.eval_batch(list(forms), cells)
            for (f_, want), got in zip(forms.items(), outs):
                ctx.event('empty_cells_in_range_cases')
                if got != ('value', want):
                    ctx.fail(f'{f_} over {col} followed by three empty cells '
                             f'-> {got}, scan gives {want}',
                             {'formula': f_, 'data': col, 'observed': got,
                              'reference': want}, monitor='linear-scan',
                             group='empty-cells:lookup')
    # ---- texts that Python's float() would read as not-a-number or infinite are
    # texts: as criterion operands and as cells -----------------------------
    if ctx.shard in (5, 6) or thorough:
        odd = ['inf', 'nan', 'Infinity', '-inf', '1e999', 'NaN', '-1E+400']
        colx = odd[:4] + ['apple', 3, 0, 'INF']
        rgx = 'A1:A8'
        cellsx = {f'A{i + 1}': v for i, v in enumerate(colx)}
        formsx = {}
        for t in odd:
            for op in ('', '=', '<>'):
                n_ = sum(1 for c in colx if crit_holds(c, op, t))
                formsx[f'=COUNTIF({rgx},{subject.lit(op + t)})'] = \
                    ('num', float(n_))
            formsx[f'=COUNTIFS({rgx},{subject.lit("<>" + t)},{rgx},"<>apple")'] \
                = ('num', float(sum(1 for c in colx if crit_holds(c, '<>', t)
                                    and crit_holds(c, '<>', 'apple'))))
            formsx[f'=MATCH({subject.lit(t)},{rgx},0)'] = next(
                (('num', float(i + 1)) for i, c in enumerate(colx)
                 if values_equal(c, t)), ('err', '#N/A'))
        outs = subject.eval_batch(list(formsx), cellsx)
        for (f_, want), got in zip(formsx.items(), outs):
            ctx.event('float_lookalike_operand_cases')
            ctx.case(('float-lookalike', f_))
            if got != ('value', want):
                ctx.fail(f'{f_} over {colx} -> {got}, scan gives {want}',
                         {'formula': f_, 'data': colx, 'observed': got,
                          'reference': want}, monitor='linear-scan',
                         group='float-lookalike:' + f_[1:8])
    # ---- a text is not the number it spells (nor the truth value): lookups and
    # criteria-free matches over number / boolean keys with text lookup values
    # and the other way round; CHOOSE with the full 254 values ------------------
    if ctx.shard in (7, 8) or thorough:
        keys = [7, 7.5, 12, True, 'apple', '7', '12.0']
        cells = {f'A{i + 1}': k for i, k in enumerate(keys)}
        cells.update({f'B{i + 1}': 100 + i for i in range(len(keys))})
        rg, tb = f'A1:A{len(keys)}', f'A1:B{len(keys)}'

        def first(pred):
            return next((i for i, k in enumerate(keys) if pred(k)), None)
        lookups = [
            ('"7"', lambda k: isinstance(k, str) and k == '7'),
            ('"7.5"', lambda k: isinstance(k, str) and k == '7.5'),
            ('"TRUE"', lambda k: isinstance(k, str) and k.upper() == 'TRUE'),
            ('"12"', lambda k: isinstance(k, str) and k == '12'),
            ('7', lambda k: is_num(k) and k == 7),
            ('12', lambda k: is_num(k) and k == 12),
            ('"12.0"', lambda k: isinstance(k, str) and k == '12.0'),
            ('"APPLE"', lambda k: isinstance(k, str) and k.upper() == 'APPLE'),
        ]
        forms = {}
        for lit_, pred in lookups:
            pos = first(pred)
            forms[f'=MATCH({lit_},{rg},0)'] = ('num', float(pos + 1)) \
                if pos is not None else ('err', '#N/A')
            forms[f'=VLOOKUP({lit_},{tb},2,FALSE)'] = \
                ('num', float(100 + pos)) if pos is not None \
                else ('err', '#N/A')
            forms[f'=VLOOKUP({lit_},{tb},1,FALSE)'] = norm_of(keys[pos]) \
                if pos is not None and not isinstance(keys[pos], bool) \
                else (('bool', True) if pos is not None else ('err', '#N/A'))
        outs = subject.eval_batch(list(forms), cells)
        for (f_, want), got in zip(forms.items(), outs):
            ctx.event('text_is_not_its_number_cases')
            ctx.case(('text-vs-number', f_))
            if got != ('value', want):
                ctx.fail(f'{f_} over the keys {keys} -> {got}, the first row '
                         f'whose key EQUALS the lookup value gives {want} (a '
                         f'text does not equal the number it spells)',
                         {'formula': f_, 'keys': keys, 'observed': got,
                          'reference': want}, monitor='linear-scan',
                         group='text-vs-number:' + f_[1:6])
        # CHOOSE with as many values as a function takes
        vals254 = [1000 + i for i in range(254)]
        args254 = ','.join(str(v) for v in vals254)
        cforms = {}
        for idx in (1, 2, 127, 253, 254):
            cforms[f'=CHOOSE({idx},{args254})'] = ('num', float(vals254[idx - 1]))
            cforms[f'=CHOOSE(A1,{args254})|{idx}'] = ('num',
                                                      float(vals254[idx - 1]))
        cforms[f'=CHOOSE(255,{args254})'] = ('err', '#VALUE!')
        cforms[f'=CHOOSE(0,{args254})'] = ('err', '#VALUE!')
        for f_, want in cforms.items():
            text, _, cellv = f_.partition('|')
            got = subject.eval_one(text, {'A1': int(cellv)} if cellv else {})
            ctx.event('choose_cases')
            ctx.event('choose_254_cases')
            ctx.case(('CHOOSE-254', text[:14], cellv))
            if got != ('value', want):
                ctx.fail(f'{text[:30]}... (254 values{", A1=" + cellv if cellv else ""}) '
                         f'-> {got}, expected {want}',
                         {'formula': text[:200], 'A1': cellv, 'observed': got,
                          'reference': want}, monitor='linear-scan',
                         group='CHOOSE-254')
    # ---- histories: tables that share their key column, payloads re-assigned -----
    # (an answer must come from the table the formula names as it is NOW: same
    # keys with other payloads or another width, side by side in one workbook,
    # then the payloads and the key order changed through set_cell_value)
    for round_ in range(40 if thorough else 5):
        keykind = ('num', 'text')[round_ % 2]
        pool = [1, 2, 3, 5, 7, 10, -1, 2.5] if keykind == 'num' else \
            ['apple', 'Banana', 'cherry', 'date', 'Elder', 'fig']
        keys = rng.sample(pool, rng.randint(2, 5))
        widths = [2, 3, 4, 1, 3]
        rng.shuffle(widths)
        serial = [0]

        def payload():
            serial[0] += 1
            return serial[0] * 10 + round_ if rng.random() < 0.7 else \
                'p%d' % serial[0]

        def fresh_tables(ks):
            return [[[k] + [payload() for _ in range(w - 1)] for k in ks]
                    for w in widths]

        def cells_of(tables):
            cells, rgs, r = {}, [], 1
            for t in tables:
                for i, row in enumerate(t):
                    for j, v in enumerate(row):
                        cells[f'{ref.col_letters(1 + j)}{r + i}'] = v
                rgs.append(f'A{r}:{ref.col_letters(len(t[0]))}'
                           f'{r + len(t) - 1}')
                r += len(t) + 1
            return cells, rgs

        t0 = fresh_tables(keys)
        t1 = [[[row[0]] + [payload() for _ in row[1:]] for row in t]
              for t in t0]                       # same keys, other payloads
        ks2 = keys[1:] + keys[:1]                # keys rotated, payloads stay
        t2 = [[[k] + row[1:] for k, row in zip(ks2, t)] for t in t1]
        steps = [t0, t1, t2, t0]
        cells0, rgs = cells_of(t0)
        probes = []
        for ti, t in enumerate(t0):
            w = len(t[0])
            for key in keys + ([keys[0].swapcase()] if keykind == 'text'
                               else [4242]):
                kl = subject.lit(key) if not (is_num(key) and key < 0) \
                    else '-' + subject.lit(-key)
                for ci in range(1, w + 1):
                    probes.append((f'=VLOOKUP({kl},{rgs[ti]},{ci},FALSE)',
                                   ti, key, ci))
                probes.append((f'=MATCH({kl},A{rgs[ti].split(":")[0][1:]}:A'
                               f'{rgs[ti].split(":")[1].lstrip("ABCD")},0)',
                               ti, key, 0))
        rng.shuffle(probes)          # tables interleaved, not one after the other
        outs = subject.eval_series([p[0] for p in probes],
                                   [cells_of(t)[0] for t in steps])
        if outs is None:
            ctx.fail(f'workbook of {len(probes)} lookups over tables sharing '
                     f'the keys {keys} does not compile',
                     {'keys': keys, 'formulas': [p[0] for p in probes][:20]},
                     monitor='linear-scan', group='history:compile')
            continue
        for step, (tables, got_all) in enumerate(zip(steps, outs)):
            for (text, ti, key, ci), got in zip(probes, got_all):
                t = tables[ti]
                pos = next((i for i, r in enumerate(t)
                            if values_equal(r[0], key)), None)
                if ci == 0:
                    want = ('num', float(pos + 1)) if pos is not None \
                        else ('err', '#N/A')
                else:
                    want = norm_of(t[pos][ci - 1]) if pos is not None \
                        else ('err', '#N/A')
                ctx.event('lookup_history_cases')
                ctx.case(('history', step, 'MATCH' if ci == 0 else 'VLOOKUP',
                          keykind, pos is None, min(ci, 2)))
                if got != ('value', want):
                    ctx.fail(f'{text} after {step} re-assignments of the '
                             f'tables (same key column, other payloads / '
                             f'rotated keys): observed {got}, scan of the '
                             f'table as it is now {t} gives {want}',
                             {'formula': text,
                              'assignments_in_order':
                                  [cells_of(x)[0] for x in steps[:step + 1]],
                              'step': step, 'table_now': t,
                              'tables_sharing_the_keys': len(tables),
                              'observed': got, 'reference': want},
                             monitor='linear-scan',
                             group=f'history:{"MATCH" if ci == 0 else "VLOOKUP"}'
                                   f':step{min(step, 1)}:{got[0]}')
        # the same through the library: arrays with equal key columns
        for a, b in ((t0[0], t1[0]), (t1[1], t0[1]), (t0[2], t0[1])):
            for t in (a, b, a):
                key = rng.choice(keys)
                ci = rng.randint(1, len(t[0]))
                got = monitors.call_outcome(F['VLOOKUP'], key, T.Array(t),
                                            ci, False)
                row = next(r for r in t if values_equal(r[0], key))
                ctx.event('library_calls')
                ctx.event('lookup_history_cases')
                if got != ('value', norm_of(row[ci - 1])):
                    ctx.fail(f'VLOOKUP({key!r}, {t}, {ci}, False) called after'
                             f' a lookup in another table with the same key '
                             f'column -> {got}, scan gives '
                             f'{norm_of(row[ci - 1])}',
                             {'function': 'VLOOKUP', 'key': key, 'table': t,
                              'column': ci, 'observed': got,
                              'reference': norm_of(row[ci - 1])},
                             monitor='linear-scan', group='history:library')
    # ---- text criteria and the = operator agree on what "the same text" is ------
    # (letters with several lower- or upper-case forms: the statement only says
    # "case-insensitively"; whichever folding is used, COUNTIF's "=x" must
    # select the cells c for which the formula =c=x is TRUE)
    if ctx.shard in (0, 1) or thorough:
        special = ['Σ', 'σ', 'ς', 'µ', 'μ', 'Μ', 'straße', 'STRASSE', 'ǆ',
                   'ǅ', 'Ǆ', 'a', 'A', 'é', 'É', 'İ', 'i', 'ı', 'I']
        col = list(special)
        rng.shuffle(col)
        arr = T.Array([[v] for v in col])
        for x in special:
            eq = [monitors.call_outcome(F['OP_EQ'], T.Text(c), T.Text(x))
                  for c in col]
            n_eq = sum(1 for g in eq if g == ('value', ('bool', True)))
            for crit, want_n in ((x, n_eq), ('=' + x, n_eq),
                                 ('<>' + x, len(col) - n_eq)):
                got = monitors.call_outcome(F['COUNTIF'], arr, crit)
                ctx.event('library_calls')
                ctx.event('criteria_vs_operator_cases')
                ctx.case(('criteria-vs-operator', x, crit[:2]))
                if got != ('value', ('num', float(want_n))):
                    ctx.fail(f'COUNTIF({col}, {crit!r}) -> {got}, but the '
                             f'= operator finds {n_eq} of these cells equal '
                             f'to {x!r}',
                             {'function': 'COUNTIF', 'data': col,
                              'criterion': crit, 'observed': got,
                              'cells_equal_by_operator': n_eq},
                             monitor='criteria-vs-operator',
                             group='criteria-vs-operator:' + crit[:2])
    ctx.data['ops'] = sorted(ops_seen - {''})


def offline(merged, ctx):
    ops = set()
    for d in merged['data']:
        ops.update(d.get('ops', []))
    merged['counters']['operator_prefixes_seen'] = len(ops)
