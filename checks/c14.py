"""C14 — aggregates over ranges equal the reference fold of the addressed cells.

Events: Evaluator.evaluate of =AGG(args) (decides).
Oracle: folds over the generator's own cell contents (vlib/ref.py), plus
metamorphic relations checked on the OBSERVED values: permuting arguments,
permuting contents inside a range, SUM additivity over every split, MIN <=
AVERAGE <= MAX.  All numbers are multiples of 1/8 below 2^20, so sums are exact
and order independent.
"""
import itertools

from vlib import ref, subject

PROPERTY = 'C14'
RULE = ('all fill patterns {number, blank, text}^n of rectangles with <= 4 '
        'cells (quick) / <= 6 cells (thorough) in every shape, sampled '
        'rectangles up to 8x8; SUM, AVERAGE, MIN, MAX, COUNT, COUNTA, '
        'SUMPRODUCT with 1-4 arguments mixing ranges and numeric scalars; '
        'every row/column split; argument permutations; content '
        'permutations; the same rectangle addressed twice in one formula; '
        'library calls on Arrays of value objects (arguments unchanged, same '
        'result again).  non-trivial = rectangle with >= 2 kinds of content '
        'or 2 dimensions or >= 2 arguments; distinct by (function, shape, '
        'pattern, argument layout)')
ASSUMPTIONS = [
    'not generated (statement silent): booleans or numeric-looking text in '
    'ranges, MIN/MAX/AVERAGE over no number, more than 255 cells for '
    'COUNT/COUNTA, scalar text/boolean arguments',
]
FLOORS = {'aggregate_evaluations': 3000, 'two_dimensional': 200,
          'split_relations': 100, 'permutation_relations': 100,
          'order_relations': 100, 'sumproduct_cases': 100,
          'same_cells_twice': 300, 'library_calls_monitored': 100,
          'absolute_rectangles': 100, 'big_rectangles': 6,
          'big_integer_cases': 50, 'zero_valued_rectangles': 6,
          'derived_models': 20, 'float_lookalike_text_cases': 50,
          'placed_rectangle_cases': 500, 'long_zero_runs': 6,
          'switched_failure_evaluations': 50,
          'single_cell_split_cases': 100, 'exact_integer_sums': 30}
ANCHOR_FUNCS = {
    'xlcalculator/xlfunctions/math.py': ['SUM', 'SUMPRODUCT'],
    'xlcalculator/xlfunctions/statistics.py': ['AVERAGE', 'MIN', 'MAX',
                                               'COUNT', 'COUNTA'],
    'xlcalculator/xlfunctions/xl.py': ['flatten', '_validate'],
    'xlcalculator/ast_nodes.py': ['RangeNode.eval'],
}
TIMEOUT = {'quick': 600, 'thorough': 3000}

AGGS = ['SUM', 'AVERAGE', 'MIN', 'MAX', 'COUNT', 'COUNTA', 'SUMPRODUCT']
NEEDS_NUMBER = {'AVERAGE', 'MIN', 'MAX'}
F4 = (False,) * 4
S = 'Sheet1'
TEXTS = ['tx', 'abc', 'q']


def shards(tier):
    return 16


def numbers(rng, k):
    return [rng.randint(-(2 ** 15), 2 ** 15) / 8 for _ in range(k)]


RECT_FLAGS = [F4]      # how the current rectangle's references are spelt


def rect_formula(f, c1, r1, c2, r2):
    return ('call', f, [('rng', None, c1, r1, c2, r2, RECT_FLAGS[0])])


class Batch:
    def __init__(self, ctx):
        self.ctx = ctx
        self.reset()

    def reset(self):
        self.cells = {}
        self.items = []       # (ast, meta)
        self.row0 = 1

    def place(self, matrix):
        """put a matrix of contents at a fresh block; returns (c1, r1, c2, r2)"""
        r1 = self.row0
        for i, row in enumerate(matrix):
            for j, v in enumerate(row):
                if v is not None:
                    self.cells[(S, 1 + j, r1 + i)] = v
        self.row0 += len(matrix) + 1
        return (1, r1, len(matrix[0]), r1 + len(matrix) - 1)

    def add(self, ast, meta):
        self.items.append((ast, meta))

    def flush(self, judge):
        if not self.items:
            self.reset()
            return
        wb = ref.Workbook(self.cells)
        inputs = {f'{ref.col_letters(c)}{r}': v
                  for (s, c, r), v in self.cells.items()}
        texts = ['=' + ref.render(a) for a, _ in self.items]
        outs = subject.eval_batch(texts, inputs)
        for (ast, meta), got in zip(self.items, outs):
            try:
                want = ('value', ref.to_norm(wb.eval(ast, S)))
            except ref.Undecided:
                want = None
            judge(ast, meta, got, want)
        self.reset()


def run(ctx):
    rng = ctx.rng
    thorough = ctx.tier == 'thorough'
    B = Batch(ctx)
    relations = {}      # key -> list of (label, observed)

    def judge(ast, meta, got, want):
        ctx.event('aggregate_evaluations')
        if meta.get('two_d'):
            ctx.event('two_dimensional')
        if meta.get('func') == 'SUMPRODUCT':
            ctx.event('sumproduct_cases')
        if meta.get('rel'):
            relations.setdefault(meta['rel'], []).append(
                (meta.get('label'), got, ref.render(ast), meta.get('cells')))
        if want is None:
            ctx.event('skipped_undecided')
            return
        ctx.case(meta.get('nt'))
        text = '=' + ref.render(ast)
        if ctx.want_sample() and rng.random() < 0.005:
            ctx.sample({'formula': text, 'cells': meta.get('cells'),
                        'observed': got, 'reference': want[1]})
        ok = got == want
        if not ok and got[0] == 'value' and got[1][0] == 'num' and \
                want[1][0] == 'num':
            ok = abs(got[1][1] - want[1][1]) <= 1e-9 * max(
                1.0, abs(want[1][1]))
        if not ok:
            ctx.fail(f'{text} over {meta.get("cells")}: observed {got}, '
                     f'reference {want[1]}',
                     {'formula': text, 'cells': meta.get('cells'),
                      'observed': got, 'reference': want[1]},
                     kf=classify(meta, got, want), monitor='reference-fold',
                     group=f'{meta.get("func")}:{meta.get("kinds")}:'
                           f'{meta.get("two_d")}:{got[0]}:'
                           f'{got[1][0] if got[0] == "value" else ""}')

    def kinds_of(matrix):
        ks = set()
        for row in matrix:
            for v in row:
                ks.add('blank' if v is None else
                       ('text' if isinstance(v, str) else 'num'))
        return ''.join(sorted(k[0] for k in ks))

    def add_rect_cases(matrix, tag, funcs=AGGS):
        rows, cols = len(matrix), len(matrix[0])
        c1, r1, c2, r2 = B.place(matrix)
        # one spelling ($ flags) for every reference to this rectangle and
        # its parts: the workbook then holds the range in that spelling only
        if rng.random() < 0.35:
            RECT_FLAGS[0] = tuple(rng.random() < 0.6 for _ in range(4))
            ctx.event('absolute_rectangles')
        else:
            RECT_FLAGS[0] = F4
        has_num = any(isinstance(v, (int, float)) for row in matrix
                      for v in row)
        kinds = kinds_of(matrix)
        two_d = rows > 1 and cols > 1
        cells = [[v for v in row] for row in matrix]
        nt_base = (tag, rows, cols, tuple(tuple(
            'n' if isinstance(v, (int, float)) else ('t' if v else 'b')
            for v in row) for row in matrix))
        flat_sorted = tuple(sorted(repr(v) for row in matrix for v in row))
        for f in funcs:
            if f in NEEDS_NUMBER and not has_num:
                continue
            nt = (f,) + nt_base if (len(kinds) >= 2 or two_d) else None
            B.add(rect_formula(f, c1, r1, c2, r2),
                  {'func': f, 'cells': cells, 'kinds': kinds, 'two_d': two_d,
                   'nt': nt,
                   'rel': ('perm-content', f, rows, cols, flat_sorted)
                   if f != 'SUMPRODUCT' or True else None,
                   'label': 'arrangement'})
        # SUM additivity over every row split and column split
        for k in (range(1, rows) if rows <= 8 else
                  rng.sample(range(1, rows), 3)):
            key = ('split', id(matrix), 'row', k)
            B.add(rect_formula('SUM', c1, r1, c2, r2),
                  {'func': 'SUM', 'cells': cells, 'kinds': kinds,
                   'two_d': two_d, 'rel': key, 'label': 'whole'})
            B.add(('bin', '+', rect_formula('SUM', c1, r1, c2, r1 + k - 1),
                   rect_formula('SUM', c1, r1 + k, c2, r2)),
                  {'func': 'SUM', 'cells': cells, 'kinds': kinds,
                   'two_d': two_d, 'rel': key, 'label': 'parts',
                   'nt': ('split-row', k) + nt_base})
        for k in (range(1, cols) if cols <= 8 else
                  rng.sample(range(1, cols), 3)):
            key = ('split', id(matrix), 'col', k)
            B.add(rect_formula('SUM', c1, r1, c2, r2),
                  {'func': 'SUM', 'cells': cells, 'kinds': kinds,
                   'two_d': two_d, 'rel': key, 'label': 'whole'})
            B.add(('call', 'SUM', [('rng', None, c1, r1, c1 + k - 1, r2, F4),
                                   ('rng', None, c1 + k, r1, c2, r2, F4)]),
                  {'func': 'SUM', 'cells': cells, 'kinds': kinds,
                   'two_d': two_d, 'rel': key, 'label': 'parts',
                   'nt': ('split-col', k) + nt_base})
        # the same cells addressed several times within ONE formula: the
        # whole minus its parts, and two aggregates over one rectangle
        if rows > 1:
            k = rng.randint(1, rows - 1)
            B.add(('bin', '-', ('bin', '-', rect_formula(
                'SUM', c1, r1, c2, r2), rect_formula(
                    'SUM', c1, r1, c2, r1 + k - 1)), rect_formula(
                        'SUM', c1, r1 + k, c2, r2)),
                  {'func': 'SUM', 'cells': cells, 'kinds': kinds,
                   'two_d': two_d, 'nt': ('whole-minus-parts', k) + nt_base})
            ctx.event('same_cells_twice')
        if cols > 1:
            k = rng.randint(1, cols - 1)
            B.add(('bin', '-', ('bin', '-', rect_formula(
                'SUM', c1, r1, c2, r2), rect_formula(
                    'SUM', c1, r1, c1 + k - 1, r2)), rect_formula(
                        'SUM', c1 + k, r1, c2, r2)),
                  {'func': 'SUM', 'cells': cells, 'kinds': kinds,
                   'two_d': two_d, 'nt': ('whole-minus-cols', k) + nt_base})
            ctx.event('same_cells_twice')
        usable = [f for f in funcs if f != 'SUMPRODUCT' and
                  (has_num or f not in NEEDS_NUMBER)]
        for _p in range(2):
            f, g = rng.choice(usable), rng.choice(usable)
            B.add(('bin', rng.choice(['+', '-']),
                   rect_formula(f, c1, r1, c2, r2),
                   rect_formula(g, c1, r1, c2, r2)),
                  {'func': f + '+' + g, 'cells': cells, 'kinds': kinds,
                   'two_d': two_d, 'nt': ('two-aggregates', f, g) + nt_base})
            ctx.event('same_cells_twice')
        # MIN <= AVERAGE <= MAX
        if has_num:
            key = ('order', id(matrix))
            for f in ('MIN', 'AVERAGE', 'MAX'):
                B.add(rect_formula(f, c1, r1, c2, r2),
                      {'func': f, 'cells': cells, 'kinds': kinds,
                       'two_d': two_d, 'rel': key, 'label': f})
        return (c1, r1, c2, r2)

    # ---- exhaustive fill patterns -------------------------------------------
    shapes = [(1, 1), (1, 2), (2, 1), (1, 3), (3, 1), (2, 2), (1, 4), (4, 1)]
    if thorough:
        shapes += [(1, 5), (5, 1), (2, 3), (3, 2), (1, 6), (6, 1)]
    idx = 0
    for rows, cols in shapes:
        n = rows * cols
        for pattern in itertools.product('nbt', repeat=n):
            idx += 1
            if idx % ctx.nshards != ctx.shard:
                continue
            nums = numbers(rng, n)
            flat = [nums[i] if p == 'n' else (None if p == 'b' else
                                              rng.choice(TEXTS))
                    for i, p in enumerate(pattern)]
            matrix = [flat[r * cols:(r + 1) * cols] for r in range(rows)]
            add_rect_cases(matrix, 'pattern')
            if len(B.items) > 250:
                B.flush(judge)
    B.flush(judge)
    ctx.block('fill patterns {n,b,t}^cells x shapes', idx // ctx.nshards)

    # ---- texts that Python's float() would read (Infinity, 1e999, nan) are
    # non-numeric text in a range: ignored like any other text --------------
    if ctx.shard in (5, 6) or thorough:
        for t_ in ('Infinity', 'inf', '-inf', '1e999', '-1E400', 'nan',
                   'NaN',
                   # characters str.isdigit() accepts and int() does not
                   '\u00b2', '\u2075\u00b3', '\u2082', '\u2460', 'm\u00b2',
                   '1\u00b2'):
            cells_ = {'A1': 1.5, 'A2': t_, 'A3': 2.25, 'B1': 'abc', 'B2': 4.0,
                      'B3': t_}
            probes = {'=SUM(A1:B3)': 7.75, '=SUM(A1:A3)+SUM(B1:B3)': 7.75,
                      '=AVERAGE(A1:B3)': 7.75 / 3, '=MAX(A1:B3)': 4.0,
                      '=MIN(A1:B3)': 1.5, '=COUNT(A1:B3)': 3.0,
                      '=COUNTA(A1:B3)': 6.0,
                      '=SUMPRODUCT(A1:A3,A1:A3)': 1.5 * 1.5 + 2.25 * 2.25}
            outs = subject.eval_batch(list(probes), cells_)
            for (text, want), got in zip(probes.items(), outs):
                ctx.event('aggregate_evaluations')
                ctx.event('float_lookalike_text_cases')
                ctx.case(('float-lookalike', t_, text[:8]))
                ok = got[0] == 'value' and got[1][0] == 'num' and \
                    abs(got[1][1] - want) <= 1e-9
                if not ok:
                    ctx.fail(f'{text} over {cells_}: observed {got}, '
                             f'reference {want} (the text {t_!r} is no '
                             f'number)', {'formula': text, 'cells': cells_,
                                          'observed': got, 'reference': want},
                             monitor='reference-fold',
                             group=f'float-lookalike:{text[:6]}')

    # ---- zeros are values (COUNTA counts them, MIN/MAX/AVERAGE see them) ----
    if ctx.shard in (3, 4) or thorough:
        for m_ in ([[0, 'tx'], [None, 0.0]], [[0, 0, 0]], [[0.0], [None], [5.5]],
                   [[0, -2.5], [0.0, 3.0]], [[None, 0]], [[0]]):
            add_rect_cases([list(r) for r in m_], 'zeros')
            ctx.event('zero_valued_rectangles')
        B.flush(judge)

    # ---- sampled bigger rectangles, content permutations --------------------
    for _ in range((4000 if thorough else 160) // ctx.nshards):
        rows, cols = rng.randint(1, 8), rng.randint(1, 8)
        flat = []
        for v in numbers(rng, rows * cols):
            x = rng.random()
            flat.append(v if x < 0.6 else (None if x < 0.85 else
                                           rng.choice(TEXTS)))
        if not any(isinstance(v, float) for v in flat):
            flat[0] = 1.5
        for arrangement in range(2):
            m = [flat[r * cols:(r + 1) * cols] for r in range(rows)]
            add_rect_cases(m, 'sampled')
            rng.shuffle(flat)
        if len(B.items) > 250:
            B.flush(judge)
    B.flush(judge)

    # ---- rectangles with more than 255 cells (SUM, AVERAGE, MIN, MAX; the
    # counting functions have an argument limit the statement is silent on)
    big = [(16, 16), (2, 128), (128, 2), (300, 1), (1, 260), (20, 20)]
    for bi, (rows, cols) in enumerate(big):
        if bi % ctx.nshards != ctx.shard % len(big) and not thorough:
            continue
        flat = [v if rng.random() < 0.9 else None
                for v in numbers(rng, rows * cols)]
        flat[0] = flat[0] if flat[0] is not None else 1.5
        m = [flat[r * cols:(r + 1) * cols] for r in range(rows)]
        add_rect_cases(m, 'big', funcs=['SUM', 'AVERAGE', 'MIN', 'MAX'])
        ctx.event('big_rectangles')
        B.flush(judge)
    # ---- long runs of zeros (and FALSE) inside a rectangle: more than 100 in
    # reading order; they are values, and what follows them is still read ----
    if ctx.shard in (5, 6, 7) or thorough:
        for zi, (rows, cols, zero) in enumerate((
                (1, 130, 0), (130, 1, 0.0), (12, 12, 0), (3, 60, 0),
                (1, 150, False), (2, 110, 0))):
            if zi % 3 != ctx.shard % 3 and not thorough:
                continue
            flat = [zero] * (rows * cols)
            head, tail = min(10, cols), max(rows * cols - 12, 0)
            for i in list(range(head)) + list(range(tail, rows * cols)):
                flat[i] = numbers(rng, 1)[0]
            m = [flat[r * cols:(r + 1) * cols] for r in range(rows)]
            add_rect_cases(m, 'zero-run',
                           funcs=['SUM', 'AVERAGE', 'MIN', 'MAX', 'COUNT',
                                  'COUNTA'] if zero is not False
                           else ['SUM', 'COUNTA', 'MAX'])
            ctx.event('long_zero_runs')
            B.flush(judge)
    RECT_FLAGS[0] = F4

    # ---- whole numbers next to each other beyond 2^53 (cell values hold them
    # exactly): the extremes are told apart, in every arrangement ----------------
    if ctx.shard in (0, 1, 2) or thorough:
        for base in (2 ** 53, 10 ** 17, -2 ** 53 - 8):
            offs = rng.sample(range(0, 6), 4)
            for arrangement in range(3):
                rng.shuffle(offs)
                cells_ = {f'A{i + 1}': base + o for i, o in enumerate(offs)}
                hi = max(offs)
                lo = min(offs)
                probes = {
                    '=MAX(A1:A4)-MIN(A1:A4)': ('num', float(hi - lo)),
                    f'=MAX(A1:A4)=A{offs.index(hi) + 1}': ('bool', True),
                    f'=MIN(A1:A4)=A{offs.index(lo) + 1}': ('bool', True),
                    f'=MAX(A1:A4)-A{offs.index(lo) + 1}':
                        ('num', float(hi - lo)),
                    f'=MAX(A1,A2,A3,A4)-MIN(A4,A3,A2,A1)':
                        ('num', float(hi - lo)),
                    '=COUNT(A1:A4)': ('num', 4.0),
                }
                outs = subject.eval_batch(list(probes), cells_)
                for (text, want), got in zip(probes.items(), outs):
                    ctx.event('aggregate_evaluations')
                    ctx.event('big_integer_cases')
                    ctx.case(('big-int', base, text[:12], arrangement))
                    if got != ('value', want):
                        ctx.fail(f'{text} over {cells_}: observed {got}, '
                                 f'reference {want}',
                                 {'formula': text, 'cells': cells_,
                                  'observed': got, 'reference': want},
                                 monitor='reference-fold',
                                 group=f'big-int:{text[:8]}')

    # ---- several arguments: ranges + numeric scalars, every order -----------
    for _ in range((3000 if thorough else 200) // ctx.nshards):
        nargs = rng.randint(2, 4)
        args, desc = [], []
        for _a in range(nargs):
            if rng.random() < 0.6:
                rows, cols = rng.randint(1, 3), rng.randint(1, 3)
                flat = [v if rng.random() < 0.7 else
                        (None if rng.random() < 0.6 else rng.choice(TEXTS))
                        for v in numbers(rng, rows * cols)]
                m = [flat[r * cols:(r + 1) * cols] for r in range(rows)]
                c1, r1, c2, r2 = B.place(m)
                args.append(('rng', None, c1, r1, c2, r2, F4))
                desc.append(m)
            else:
                v = rng.randint(-800, 800) / 8
                args.append(('lit', abs(v), subject.lit(abs(v))) if v >= 0
                            else ('neg', ('lit', -v, subject.lit(-v))))
                desc.append(v)
        has_num = any(isinstance(d, float) for d in desc) or any(
            isinstance(v, float) for d in desc if isinstance(d, list)
            for row in d for v in row)
        for f in ('SUM', 'AVERAGE', 'MIN', 'MAX', 'COUNT', 'COUNTA'):
            if f in NEEDS_NUMBER and not has_num:
                continue
            key = ('perm-args', f, id(desc))
            orders = list(itertools.permutations(range(nargs)))
            rng.shuffle(orders)
            for o in orders[:3]:
                B.add(('call', f, [args[i] for i in o]),
                      {'func': f, 'cells': desc, 'kinds': 'args',
                       'two_d': False, 'rel': key, 'label': str(o),
                       'nt': (f, 'args', nargs, o, repr(desc)[:80])})
        # SUMPRODUCT: same shape / different shapes
        rows, cols = rng.randint(1, 3), rng.randint(1, 3)
        a = [numbers(rng, cols) for _r in range(rows)]
        b = [numbers(rng, cols) for _r in range(rows)]
        if rng.random() < 0.3:
            b[rng.randrange(rows)][rng.randrange(cols)] = rng.choice(
                [None, 'tx'])
        ra, rb = B.place(a), B.place(b)
        B.add(('call', 'SUMPRODUCT', [('rng', None) + ra + (F4,),
                                      ('rng', None) + rb + (F4,)]),
              {'func': 'SUMPRODUCT', 'cells': [a, b], 'kinds': 'sp2',
               'two_d': rows > 1 and cols > 1,
               'nt': ('SUMPRODUCT', rows, cols, repr(b)[:60])})
        # same number of cells, different shape (transposed)
        if rows != cols:
            tr = [numbers(rng, rows) for _r in range(cols)]
            rt = B.place(tr)
            B.add(('call', 'SUMPRODUCT', [('rng', None) + ra + (F4,),
                                          ('rng', None) + rt + (F4,)]),
                  {'func': 'SUMPRODUCT', 'cells': [a, tr],
                   'kinds': 'sp-transposed', 'two_d': True,
                   'nt': ('SUMPRODUCT-transposed', rows, cols)})
        c = [numbers(rng, cols + 1) for _r in range(rows)]
        rc = B.place(c)
        B.add(('call', 'SUMPRODUCT', [('rng', None) + ra + (F4,),
                                      ('rng', None) + rc + (F4,)]),
              {'func': 'SUMPRODUCT', 'cells': [a, c], 'kinds': 'sp-shape',
               'two_d': True, 'nt': ('SUMPRODUCT-shape', rows, cols)})
        if len(B.items) > 250:
            B.flush(judge)
    B.flush(judge)

    # ---- a range split into sub-ranges AND single cells: the single-cell
    # references are references like the rest (text and blanks in them are
    # ignored, not converted) ---------------------------------------------------
    for it_ in range((400 if thorough else 32) // ctx.nshards + 1):
        rows, cols = rng.randint(2, 3), rng.randint(2, 3)
        flat = [v if rng.random() < 0.6 else
                (None if rng.random() < 0.4 else rng.choice(TEXTS + ['12x']))
                for v in numbers(rng, rows * cols)]
        flat[0] = rng.choice(TEXTS)            # the top-left cell holds a text
        if not any(isinstance(v, float) for v in flat):
            flat[-1] = 2.5
        cells_ = {}
        for i, v in enumerate(flat):
            if v is not None:
                cells_[(S, 1 + i % cols, 1 + i // cols)] = v
        whole = ('rng', None, 1, 1, cols, rows, F4)
        singles = [('ref', None, c, 1, False, False)
                   for c in range(1, cols + 1)]
        rest = ('rng', None, 1, 2, cols, rows, F4)
        wb = ref.Workbook(cells_)
        inputs = {f'{ref.col_letters(c)}{r}': v
                  for (s_, c, r), v in cells_.items()}
        for f in ('SUM', 'AVERAGE', 'MIN', 'MAX', 'COUNT'):
            if f in NEEDS_NUMBER and not any(
                    isinstance(v, float) for v in flat):
                continue
            forms = {'whole': ('call', f, [whole]),
                     'singles+rest': ('call', f, singles + [rest]),
                     'rest+singles': ('call', f, [rest] + singles[::-1])}
            outs = subject.eval_batch(
                ['=' + ref.render(a) for a in forms.values()], inputs)
            try:
                # the same cells however they are addressed: the fold of the
                # whole rectangle is the reference for every split of it
                want = ('value', ref.to_norm(wb.eval(forms['whole'], S)))
            except ref.Undecided:
                continue
            for (label, ast), got in zip(forms.items(), outs):
                ctx.event('single_cell_split_cases')
                judge(ast, {'func': f, 'cells': inputs,
                            'kinds': 'split-into-single-cells:' + label,
                            'two_d': rows > 1 and cols > 1,
                            'nt': (f, 'single-split', label, rows, cols)},
                      got, want)

    # ---- whole numbers: a sum of integers beyond 2^53 is exact (the cells hold
    # exact integers, and so does their sum) ---------------------------------
    if ctx.shard in (8, 9) or thorough:
        for base in (2 ** 53, 10 ** 17, 2 ** 60):
            cells_ = {'A1': base, 'A2': 1, 'A3': 2, 'A4': 3, 'B1': base}
            probes = {'=SUM(A1:A2)-B1': 1.0, '=SUM(A1:A4)-SUM(A1:A3)': 3.0,
                      '=SUM(A2:A4,A1)-B1': 6.0, '=SUM(A1:A4)-B1-SUM(A2:A4)': 0.0,
                      '=SUM(A1,A2)=B1': False, '=SUM(A4,A1)-SUM(A1,A3)': 1.0}
            outs = subject.eval_batch(list(probes), cells_)
            for (text, want), got in zip(probes.items(), outs):
                ctx.event('aggregate_evaluations')
                ctx.event('exact_integer_sums')
                ctx.case(('exact-int-sum', text, base))
                wn = ('bool', want) if isinstance(want, bool) else \
                    ('num', want)
                if got != ('value', wn):
                    ctx.fail(f'{text} over {cells_}: observed {got}, expected '
                             f'{want} (integers add exactly)',
                             {'formula': text, 'cells': cells_,
                              'observed': got, 'reference': want},
                             monitor='reference-fold',
                             group='exact-int-sum:' + text[:8])

    # ---- where a rectangle sits: blocks that start at other columns than A
    # (E:H, F:I, G:H, M:P, W:Z ...), on the formula's own sheet and on another
    # one; a range on ANOTHER sheet followed by unqualified references (they
    # mean the formula's own sheet); SUMPRODUCT of rectangles that start at
    # different columns (multiplies cell by cell in reading order) -----------
    # (column ZZ holds the probe formulas: three-letter columns start at AAA)
    starts = [1, 5, 6, 7, 13, 15, 21, 23, 30, 31, 703, 704, 16379]
    for it_ in range((600 if thorough else 48) // ctx.nshards):
        cols, rows = rng.randint(2, 4), rng.randint(1, 3)
        cells = {}

        def block(sheet, c0, r0):
            m = [numbers(rng, cols) for _r in range(rows)]
            for i, row in enumerate(m):
                for j, v in enumerate(row):
                    cells[(sheet, c0 + j, r0 + i)] = v
            return ('rng', None if sheet == S else sheet, c0, r0,
                    c0 + cols - 1, r0 + rows - 1, F4)
        s_a, s_b = rng.sample(starts, 2)
        own1 = block(S, s_a, 1)
        own2 = block(S, s_b, 7)
        oth1 = block('Data2', s_b, 1)
        oth2 = block('Data2', s_a, 7)
        lone = ('ref', None, 40, 1, False, False)        # AN1 on either sheet
        cells[(S, 40, 1)] = 1000.5
        cells[('Data2', 40, 1)] = -77.25
        forms = []
        for f in ('SUM', 'AVERAGE', 'MAX', 'MIN', 'COUNT'):
            forms += [('call', f, [oth1, lone]), ('call', f, [lone, oth1]),
                      ('call', f, [oth1, own1]), ('call', f, [oth2, own2,
                                                               lone])]
        forms += [('call', 'SUMPRODUCT', [own1, own2]),
                  ('call', 'SUMPRODUCT', [oth1, own1]),
                  ('call', 'SUMPRODUCT', [own2, oth2]),
                  ('call', 'SUMPRODUCT', [oth1, oth2]),
                  ('bin', '+', ('call', 'SUM', [oth1]), lone),
                  ('bin', '-', ('call', 'SUMPRODUCT', [own1, oth2]),
                   ('call', 'SUM', [own1]))]
        wb = ref.Workbook(cells)
        inputs = {f'{s_}!{ref.col_letters(c)}{r}': v
                  for (s_, c, r), v in cells.items()}
        texts = ['=' + ref.render(a) for a in forms]
        outs = subject.eval_batch(texts, inputs, sheet=S)
        for ast, text, got in zip(forms, texts, outs):
            try:
                want = ('value', ref.to_norm(wb.eval(ast, S)))
            except ref.Undecided:
                continue
            f = ast[1] if ast[0] == 'call' else 'mixed'
            ctx.event('aggregate_evaluations')
            ctx.event('placed_rectangle_cases')
            if f == 'SUMPRODUCT':
                ctx.event('sumproduct_cases')
            ctx.case(('placed', f, s_a, s_b, cols, rows, text[:40]))
            ok = got == want or (
                got[0] == 'value' and got[1][0] == 'num' and want[1][0] == 'num'
                and abs(got[1][1] - want[1][1]) <= 1e-9 * max(
                    1.0, abs(want[1][1])))
            if not ok:
                ctx.fail(f'{text} (on {S}; blocks of {rows}x{cols} starting '
                         f'at columns {ref.col_letters(s_a)} and '
                         f'{ref.col_letters(s_b)} on {S} and Data2): observed '
                         f'{got}, reference {want[1]}',
                         {'formula': text, 'cells': inputs, 'observed': got,
                          'reference': want[1]}, monitor='reference-fold',
                         group=f'placed:{f}:{got[0]}')

    # ---- the same range again after one of its cells has been changed ---------
    from xlcalculator import Evaluator
    for _ in range((2000 if thorough else 100) // ctx.nshards + 1):
        rows, cols = rng.randint(1, 4), rng.randint(1, 3)
        flat = [v if rng.random() < 0.8 else None
                for v in numbers(rng, rows * cols)]
        if not any(isinstance(v, float) for v in flat):
            flat[0] = 2.5
        if rng.random() < 0.5:
            flat[rng.randrange(len(flat))] = rng.choice([0, 0.0])
        cells = {}
        for i, v in enumerate(flat):
            if v is not None:
                cells[(S, 1 + i % cols, 1 + i // cols)] = v
        rg = ('rng', None, 1, 1, cols, rows, F4)
        probes = {f: ('call', f, [rg] if f != 'SUMPRODUCT' else [rg, rg])
                  for f in AGGS}
        wb = ref.Workbook(cells)
        inputs = {f'{ref.col_letters(c)}{r}': v
                  for (s_, c, r), v in cells.items()}
        for j, (f, ast) in enumerate(probes.items()):
            inputs[f'H{j + 1}'] = '=' + ref.render(ast)
        # an aggregate over the range and a cell that FAILS while a switch is
        # on: evaluated once (fails), then the switch is turned off
        sw_ast = ('call', 'IF', [
            ('bin', '=', ('ref', None, 11, 1, False, False), ('lit', 1, '1')),
            ('call', 'NOSUCHFUNCTION', [('lit', 1, '1')]),
            ('lit', 4.5, '4.5')])
        sw_probe = ('call', 'SUM', [rg, ('ref', None, 10, 1, False, False)])
        wb.cells[(S, 10, 1)] = ('f', sw_ast)
        wb.cells[(S, 11, 1)] = 1
        inputs['J1'] = '=' + ref.render(sw_ast)
        inputs['K1'] = 1
        inputs['H9'] = '=' + ref.render(sw_probe)
        try:
            # the model the aggregates are evaluated on: compiled, or handed
            # on by the API (deep copy, JSON file, extraction of everything)
            import os
            from vlib import bootstrap, build
            prov = rng.choice(['compiled', 'compiled', 'json', 'extracted',
                               'deepcopy', 'loaded-under-evaluator'])
            scratch_ = os.path.join(bootstrap.VERIF, 'out', 'c14',
                                    f's{ctx.shard}.json')
            if prov == 'loaded-under-evaluator':
                # the model is constructed from its file into a Model that
                # already has an Evaluator (which has evaluated a range)
                from xlcalculator import Model
                os.makedirs(os.path.dirname(scratch_), exist_ok=True)
                subject.compile_dict(inputs).persist_to_json_file(scratch_)
                host = subject.compile_dict({'A1': 1, 'A2': 2,
                                             'H1': '=SUM(A1:A2)'}) \
                    if rng.random() < 0.5 else Model()
                ev = Evaluator(host)
                if host.cells:
                    subject.outcome_of(lambda: ev.evaluate(f'{S}!H1'))
                host.construct_from_json_file(scratch_, build_code=True)
                os.remove(scratch_)
                ctx.event('models_loaded_under_an_evaluator')
            else:
                ev = Evaluator(build.derive(
                    subject.compile_dict(inputs), prov, scratch_))
            if prov != 'compiled':
                ctx.event('derived_models')
        except Exception as e:  # noqa
            ctx.fail(f'compiling {inputs} raised {e!r}', {'cells': inputs},
                     monitor='construction', group='compile')
            continue
        for step in range(3):
            if step:
                # change one member (also a blank one), keep at least one number
                i = rng.randrange(rows * cols)
                key = (S, 1 + i % cols, 1 + i // cols)
                v = rng.randint(-800, 800) / 8
                ev.set_cell_value(build_addr(key), v)
                wb.cells[key] = v
            if step == 1:
                ev.set_cell_value(f'{S}!K1', 0)
                wb.cells[(S, 11, 1)] = 0
            got9 = subject.outcome_of(lambda: ev.evaluate(f'{S}!H9'))
            ctx.event('switched_failure_evaluations')
            if step == 0:
                if got9[0] != 'raised':
                    ctx.note(f'the switched aggregate returned {got9} while '
                             f'the switch was on')
            else:
                try:
                    want9 = ('value', ref.to_norm(wb.eval(sw_probe, S)))
                    judge(sw_probe, {'func': 'SUM', 'cells': dict(
                        (build_addr(k), v) for k, v in wb.cells.items()
                        if not isinstance(v, tuple)),
                        'kinds': f'after-a-failed-evaluation-{step}',
                        'two_d': False,
                        'nt': ('SUM', 'after-failure', step, rows, cols)},
                        got9, want9)
                except ref.Undecided:
                    pass
            for j, (f, ast) in enumerate(probes.items()):
                got = subject.outcome_of(
                    lambda: ev.evaluate(f'{S}!H{j + 1}'))
                try:
                    want = ('value', ref.to_norm(wb.eval(ast, S)))
                except ref.Undecided:
                    continue
                judge(ast, {'func': f, 'cells': dict(
                    (build_addr(k), v) for k, v in wb.cells.items()),
                    'kinds': f'after-{step}-sets', 'two_d': rows > 1 and
                    cols > 1, 'nt': (f, 'history', step, rows, cols)},
                    got, want)

    # ---- library calls: the arguments are the caller's ---------------------------
    # the functions are handed Arrays of the library's own value objects (what
    # a range evaluates to); a call must leave its arguments as they were and
    # the same call again must give the same result
    from xlcalculator.xlfunctions import xl, func_xltypes as T
    from vlib import monitors
    for _ in range((3000 if thorough else 150) // ctx.nshards + 1):
        rows, cols = rng.randint(1, 4), rng.randint(1, 4)
        flat = [v if rng.random() < 0.75 else
                (None if rng.random() < 0.6 else rng.choice(TEXTS))
                for v in numbers(rng, rows * cols)]
        if not any(isinstance(v, float) for v in flat):
            flat[-1] = 2.5

        def typed(v):
            return T.BLANK if v is None else T.ExcelType.cast_from_native(v)
        arr = T.Array([[typed(v) for v in flat[r * cols:(r + 1) * cols]]
                       for r in range(rows)])
        scalar = T.Number(rng.randint(-80, 80) / 8)
        cells = {(S, 1 + i % cols, 1 + i // cols): v
                 for i, v in enumerate(flat) if v is not None}
        wb = ref.Workbook(cells)
        rg = ('rng', None, 1, 1, cols, rows, F4)
        sc = ('lit', scalar.value, repr(scalar.value))
        for f in rng.sample(AGGS, 4):
            args, ast = ([arr, arr], ('call', f, [rg, rg])) \
                if f == 'SUMPRODUCT' else \
                ([arr, scalar], ('call', f, [rg, sc]))
            before = monitors.norm(args)
            got = monitors.call_outcome(xl.FUNCTIONS[f], *args)
            after = monitors.norm(args)
            again = monitors.call_outcome(xl.FUNCTIONS[f], *args)
            ctx.event('library_calls_monitored')
            ctx.case((f, 'library', rows, cols, kinds_of(
                [flat[r * cols:(r + 1) * cols] for r in range(rows)])))
            try:
                want = ('value', ref.to_norm(wb.eval(ast, S)))
            except ref.Undecided:
                want = None
            bad = []
            if before != after:
                bad.append(f'the call changed its arguments: {before} -> '
                           f'{after}')
            if again != got:
                bad.append(f'the same call again gives {again}')
            if want is not None and got != want and not (
                    got[0] == 'value' and got[1][0] == 'num' and
                    want[1][0] == 'num' and abs(got[1][1] - want[1][1])
                    <= 1e-9 * max(1.0, abs(want[1][1]))):
                bad.append(f'reference {want[1]}')
            if bad:
                ctx.fail(f'{f}(Array {flat} as {rows}x{cols}, '
                         f'{scalar.value}) -> {got}: ' + '; '.join(bad),
                         {'function': f, 'matrix': [
                             flat[r * cols:(r + 1) * cols]
                             for r in range(rows)], 'scalar': scalar.value,
                          'observed': got, 'again': again},
                         monitor='arguments-unchanged',
                         group=f'library:{f}:{bad[0][:20]}')

    # ---- metamorphic relations on the observed values ------------------------
    def num(got):
        return got[1][1] if got[0] == 'value' and got[1][0] == 'num' else None

    for key, obs in relations.items():
        kind = key[0]
        if kind in ('perm-content', 'perm-args'):
            if len(obs) < 2:
                continue
            ctx.event('permutation_relations')
            vals = {repr(g) for _, g, _, _ in obs}
            if len(vals) > 1:
                known = all(g[0] == 'value' and classify(
                    {'func': key[1], 'kinds': 'bnt'}, g, None)
                    for _, g, _, _ in obs if g != obs[0][1])
                ctx.fail(f'{key[1]}: permuting '
                         f'{"arguments" if kind == "perm-args" else "contents"}'
                         f' changes the result: '
                         f'{[(t, g) for _, g, t, _ in obs][:4]}',
                         {'relation': kind, 'function': key[1],
                          'observations': [(t, g, c) for _, g, t, c in
                                           obs][:4]},
                         kf=None, monitor='metamorphic-permutation',
                         group=f'{kind}:{key[1]}')
        elif kind == 'split':
            ctx.event('split_relations')
            d = {lab: g for lab, g, _, _ in obs}
            if 'whole' in d and 'parts' in d and d['whole'] != d['parts']:
                a, b = num(d['whole']), num(d['parts'])
                if a is None or b is None or abs(a - b) > 1e-9:
                    ctx.fail(f'SUM is not additive over the {key[2]} split at '
                             f'{key[3]}: whole {d["whole"]}, parts '
                             f'{d["parts"]} ({[t for _, _, t, _ in obs]})',
                             {'relation': 'split',
                              'observations': [(t, g, c) for _, g, t, c in
                                               obs]},
                             monitor='metamorphic-additivity',
                             group='split:' + key[2])
        elif kind == 'order':
            ctx.event('order_relations')
            d = {lab: num(g) for lab, g, _, _ in obs}
            if None not in (d.get('MIN'), d.get('AVERAGE'), d.get('MAX')):
                if not (d['MIN'] <= d['AVERAGE'] + 1e-9 and
                        d['AVERAGE'] <= d['MAX'] + 1e-9):
                    ctx.fail(f'MIN <= AVERAGE <= MAX broken: {d} over '
                             f'{obs[0][3]}', {'relation': 'order',
                                              'values': d,
                                              'cells': obs[0][3]},
                             monitor='metamorphic-order', group='order')


def build_addr(key):
    return f'{key[0]}!{ref.col_letters(key[1])}{key[2]}'


def classify(meta, got, want):
    return None
