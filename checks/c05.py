"""C05 — deterministic, idempotent, order-independent, no growth.

Events: value returned by every Evaluator.evaluate under each schedule; model
snapshot before/after; resource monitor (gc object count, tracemalloc bytes,
live EvaluatorContext objects) per window of identical evaluation rounds.
Oracle: one value per cell across all schedules and evaluators = reference
interpreter; snapshot unchanged; growth per round in the 2nd window ~ 0.
"""
import gc
import itertools
import tracemalloc

import os

from vlib import bootstrap, build, gen, monitors, ref, subject

PROPERTY = 'C05'
RULE = ('random acyclic models (6-16 cells: constants, formulas over cells and '
        'ranges, IF, diamonds, 1-2 sheets), every cell evaluated under many '
        'schedules: all permutations of <= 5 formula cells, sampled '
        'permutations with repetitions beyond, 1-3 evaluators over one model '
        'interleaved (some with their own namespace: the library functions '
        'with a user-written eager IF); the model is the compiled one, a deep '
        'copy, the one restored from JSON or extracted with all cells in '
        'focus; growth: two windows of N identical evaluation rounds '
        '(gc object count, tracemalloc, live contexts).  non-trivial = '
        'schedule pairs that order two DEPENDENT cells differently; distinct '
        'by (model, schedule)')
ASSUMPTIONS = [
    'no volatile functions generated; no threads (the statement quantifies '
    'over orders; the code promises no thread-safety)',
    'growth is decided on logical measures (objects / traced bytes per '
    'round), never on RSS or elapsed time',
]
FLOORS = {'schedules': 200, 'evaluate_outcomes': 2000, 'snapshots': 50,
          'growth_windows': 24, 'dependent_order_pairs': 50,
          'derived_models': 20, 'own_namespace_evaluators': 20,
          'evaluations_after_reassignment': 500, 'long_chain_outcomes': 48,
          'failing_evaluations_before_reassignment': 30,
          'numeric_state_outcomes': 100,
          'constant_consumption_outcomes': 100,
          'default_after_own_namespace': 10,
          'models_with_equal_constants_of_different_type': 20}
ANCHOR_FUNCS = {
    'xlcalculator/evaluator.py': ['Evaluator.evaluate',
                                  'EvaluatorContext.eval_cell'],
    'xlcalculator/ast_nodes.py': ['RangeNode.eval', 'FunctionNode.eval'],
}
TIMEOUT = {'quick': 600, 'thorough': 3000}


def shards(tier):
    return 16


def snapshot(model):
    cells = {}
    for a, c in model.cells.items():
        if c.formula is None:
            cells[a] = ('const', repr(monitors.norm(c.value)))
        else:
            cells[a] = ('formula', c.formula.formula,
                        getattr(c.formula, 'evaluate', None))
    names = {n: (type(d).__name__, getattr(d, 'address', None)
                 if not isinstance(getattr(d, 'address', None), list)
                 else str(d.address))
             for n, d in model.defined_names.items()}
    return cells, names, sorted(model.formulae), sorted(model.ranges)


def user_namespace():
    """a namespace an application may hand to its Evaluator: the library's
    functions, IF replaced by the user's own eager version (same results on
    models without failing branches: both branches are values)"""
    from xlcalculator.xlfunctions import xl, xlerrors

    def IF(logical_test, value_if_true=True, value_if_false=False):
        if isinstance(logical_test, xlerrors.ExcelError):
            return logical_test
        return value_if_true if logical_test else value_if_false
    ns = xl.FUNCTIONS.copy()
    ns['IF'] = IF
    return ns


def leak_run(ctx, model, addrs, rounds, label):
    from xlcalculator import Evaluator, evaluator as evmod
    ev = Evaluator(model)

    ctx_cls = getattr(evmod, 'EvaluatorContext', None)

    def live_contexts():
        if ctx_cls is None:
            return 0
        return sum(1 for o in gc.get_objects() if type(o) is ctx_cls)

    def one_round():
        if label.startswith('many-evaluators'):
            # a new Evaluator for every round, dropped afterwards (an
            # application serving one request per Evaluator)
            e2 = Evaluator(model)
            for a in addrs:
                try:
                    e2.evaluate(a)
                except RuntimeError:
                    pass
            return
        for a in addrs:
            try:
                ev.evaluate(a)
            except RuntimeError:      # a cell that fails is asked again too
                pass
    # warm up (first evaluations create caches of bounded size, e.g. inspect)
    for _ in range(50):
        one_round()
    gc.collect()
    tracemalloc.start()
    marks = []
    for w in range(3):
        gc.collect()
        marks.append((len(gc.get_objects()),
                      tracemalloc.get_traced_memory()[0], live_contexts()))
        if w < 2:
            for _ in range(rounds):
                one_round()
    tracemalloc.stop()
    (o0, b0, c0), (o1, b1, c1), (o2, b2, c2) = marks
    per_round_obj = (o2 - o1) / rounds
    per_round_bytes = (b2 - b1) / rounds
    ctx.event('growth_windows', 2)
    ctx.case(('growth', label, rounds))
    info = {'model': label, 'rounds_per_window': rounds,
            'cells_per_round': len(addrs),
            'objects': [o0, o1, o2], 'traced_bytes': [b0, b1, b2],
            'live_contexts': [c0, c1, c2],
            'objects_per_round_window2': per_round_obj,
            'bytes_per_round_window2': per_round_bytes}
    ctx.sample({'growth': info}, force=len(ctx.samples) < 10)
    if per_round_obj > 0.01 or per_round_bytes > 16 or c2 - c1 > 5:
        ctx.fail(f'repeating evaluations accumulates memory on {label}: '
                 f'{per_round_obj:.2f} objects and {per_round_bytes:.0f} '
                 f'bytes per round of {len(addrs)} evaluations in the second '
                 f'window of {rounds} rounds; live contexts {c1}->{c2}',
                 info, monitor='growth', group='growth')


def run(ctx):
    from xlcalculator import Evaluator
    rng = ctx.rng
    thorough = ctx.tier == 'thorough'
    n_models = (4000 if thorough else 160) // ctx.nshards
    for mi in range(n_models):
        sheets = ('Sheet1',) if rng.random() < 0.6 else ('Sheet1', 'Data')
        m = gen.gen_model(rng, n_inputs=rng.randint(2, 6),
                          n_formulas=rng.randint(3, 9), sheets=sheets)
        # references to cells the model does not hold (they read as blank;
        # evaluating must not create them)
        home = sheets[0]
        for j, absent in enumerate([(home, 8, 9), (sheets[-1], 9, 3)]):
            key = (home, 6, j + 1)
            a = gen.R(absent, home)
            if j == 0:
                ast = ('bin', '+', a, gen.lit(rng.choice([1, 2, 5])))
            else:
                ast = ('call', 'IF', [('bin', '>', gen.R(m.inputs[0], home),
                                       gen.lit(2)), gen.lit(0), a])
            m.cells[key] = ('f', ast)
            m.order.append(key)
            m.formulas.append(key)
            m.deps[key] = set()
            m.depth[key] = 1
        # an array-valued formula cell whose neighbours are blank members of
        # a range that other formulas read
        if rng.random() < 0.5:
            arr = (home, 9, 1)
            m.cells[arr] = ('f', ('rng', None, 1, 1, 1, 2, gen.FALSE4))
            for j, f_ in enumerate(('SUM', 'COUNT')):
                key = (home, 10, j + 1)
                m.cells[key] = ('f', ('call', f_, [('rng', None, 9, 2, 9, 3,
                                                    gen.FALSE4)]))
                m.order.append(key)
                m.formulas.append(key)
                m.deps[key] = set()
                m.depth[key] = 1
            key = (home, 10, 3)
            m.cells[key] = ('f', ('bin', '*', ('ref', None, 9, 2, False,
                                               False), gen.lit(10)))
            m.order.append(key)
            m.formulas.append(key)
            m.deps[key] = set()
            m.depth[key] = 1
            m.order.append(arr)
            m.formulas.append(arr)
            m.deps[arr] = set()
            m.depth[arr] = 1
        # twins: the same formula text on two sheets, unqualified references
        if len(sheets) == 2 and rng.random() < 0.7:
            a_, b_ = sheets
            for j in range(rng.randint(1, 3)):
                c1, r1 = rng.randint(1, 2), 1
                twin = rng.choice([
                    ('bin', '*', ('ref', None, c1, r1, False, False),
                     gen.lit(2)),
                    ('call', 'SUM', [('rng', None, 1, 1, 2, 1, gen.FALSE4)]),
                    ('bin', '+', ('ref', None, 1, 1, False, False),
                     ('ref', None, 2, 1, False, False)),
                ])
                for sh_ in (a_, b_):
                    key = (sh_, 7, j + 1)
                    m.cells[key] = ('f', twin)
                    m.order.append(key)
                    m.formulas.append(key)
                    m.deps[key] = set()
                    m.depth[key] = 1
                    # both sheets need their own inputs at A1:B1
                    for cc in (1, 2):
                        if (sh_, cc, 1) not in m.cells:
                            m.cells[(sh_, cc, 1)] = rng.choice(
                                [3, 4, 6, 8, 20])
                            m.order.append((sh_, cc, 1))
                            m.inputs.append((sh_, cc, 1))
                            m.deps[(sh_, cc, 1)] = set()
                            m.depth[(sh_, cc, 1)] = 0
        # a cell that FAILS after it has evaluated formula cells (not part of
        # the schedules; asked once, and caught, before inputs are re-assigned)
        fail_key = (home, 12, 1)
        fast = gen.lit(1)
        for fk in rng.sample(m.formulas, min(len(m.formulas), 6)):
            fast = ('bin', '+', fast, gen.R(fk, home))
        m.cells[fail_key] = ('f', ('bin', '+', fast, ('call', 'NOSUCHFUNCTION',
                                                     [gen.lit(1)])))
        m.cells[(home, 12, 2)] = ('f', ('bin', '+', ('ref', None, 12, 1, False,
                                                     False), gen.lit(1)))
        # constants that are EQUAL in Python but of different spreadsheet type
        # (1, 1.0, TRUE / 0, 0.0, FALSE), read by type-sensitive formulas
        if rng.random() < 0.5:
            kinds_ = [1, True, 1.0, 0, False, 0.0]
            rng.shuffle(kinds_)
            for j, v_ in enumerate(kinds_):
                key = (home, 14, j + 1)
                m.cells[key] = v_
                m.order.append(key)
                m.inputs_typed = getattr(m, 'inputs_typed', []) + [key]
                m.deps[key] = set()
                m.depth[key] = 0
            for j in range(6):
                key = (home, 15, j + 1)
                m.cells[key] = ('f', ('call', 'ISNUMBER', [
                    ('ref', None, 14, j + 1, False, False)]))
                m.order.append(key)
                m.formulas.append(key)
                m.deps[key] = {(home, 14, j + 1)}
                m.depth[key] = 1
            ctx.event('models_with_equal_constants_of_different_type')
        wb = m.workbook()
        try:
            want = {k: ref.to_norm(wb.value(k)) for k in m.order}
        except ref.Undecided:
            ctx.event('skipped_undecided')
            continue
        prov = rng.choice(['compiled', 'compiled', 'compiled', 'extracted',
                           'json', 'deepcopy'])
        scratch = os.path.join(bootstrap.VERIF, 'out', 'c05',
                               f's{ctx.shard}.json')

        def make_model():
            return build.derive(
                build.model_from_dict(wb, default_sheet=sheets[0]), prov,
                scratch)
        try:
            model = make_model()
        except Exception as e:  # noqa
            ctx.fail(f'building the {prov} model raised {e!r}',
                     {'cells': build.dict_of(wb), 'model': prov},
                     monitor='construction', group='build')
            continue
        if prov != 'compiled':
            ctx.event('derived_models')
        before = snapshot(model)
        formulas = list(m.formulas)
        if len(formulas) <= 5 and rng.random() < 0.5:
            perms = list(itertools.permutations(formulas))
            rng.shuffle(perms)
            perms = perms[:40 if thorough else 24]
        else:
            perms = []
            for _ in range(30 if thorough else 12):
                p = list(m.order)
                rng.shuffle(p)
                # with repetitions
                p += [rng.choice(m.order) for _ in range(rng.randint(0, 6))]
                perms.append(tuple(p))
        n_ev = rng.randint(1, 3)
        # some of the evaluators bring their own namespace: the same
        # functions, IF being the user's own eager version
        own_ns = rng.random() < 0.4

        def evaluators(mdl):
            out = []
            for i in range(n_ev):
                if own_ns and (i % 2 == 1 or n_ev == 1):
                    out.append(Evaluator(mdl, namespace=user_namespace()))
                    ctx.event('own_namespace_evaluators')
                else:
                    out.append(Evaluator(mdl))
            return out
        evs = evaluators(model)
        positions = []
        for sched in perms:
            ctx.event('schedules')
            pos = {}
            for i, k in enumerate(sched):
                pos.setdefault(k, i)
            positions.append(pos)
            fresh = rng.random() < 0.3
            if fresh:
                # a fresh model for this schedule: nothing evaluated before
                model2 = make_model()
                evs2 = evaluators(model2)
            for k in sched:
                ev = rng.choice(evs2 if fresh else evs)
                a = build.addr(k)
                got = subject.outcome_of(lambda: ev.evaluate(a))
                ctx.event('evaluate_outcomes')
                ok = got == ('value', want[k]) or (
                    got[0] == 'value' and want[k] == ('blank',)
                    and got[1] == ('blank',))
                if not ok:
                    ctx.fail(f'{a} evaluated to {got} under schedule '
                             f'{[build.addr(x) for x in sched]} '
                             f'({n_ev} evaluators, {prov} model'
                             f'{", own namespace" if own_ns else ""}), '
                             f'reference {want[k]}',
                             {'cells': build.dict_of(wb), 'model': prov,
                              'own_namespace': own_ns,
                              'schedule': [build.addr(x) for x in sched],
                              'cell': a, 'observed': got,
                              'reference': want[k], 'evaluators': n_ev},
                             monitor='schedule-independence',
                             group='value')
        # non-triviality: two dependent cells ordered both ways somewhere
        dep_pairs = [(a, b) for a in formulas for b in m.deps[a]
                     if b in formulas]
        both = 0
        for a, b in dep_pairs:
            orders = {(p[a] < p[b]) for p in positions if a in p and b in p}
            if len(orders) == 2:
                both += 1
        ctx.event('dependent_order_pairs', both)
        ctx.case(('model', mi, ctx.shard, len(perms)) if both else None,
                 n=len(perms))
        after = snapshot(model)
        ctx.event('snapshots')
        if before != after:
            diff = [a for a in set(before[0]) | set(after[0])
                    if before[0].get(a) != after[0].get(a)]
            ctx.fail(f'evaluation changed the model: cells {diff[:5]}, names '
                     f'{before[1] != after[1]}, formulae '
                     f'{before[2] != after[2]}, ranges '
                     f'{before[3] != after[3]}',
                     {'cells': build.dict_of(wb), 'changed': diff[:10],
                      'before': {a: before[0].get(a) for a in diff[:10]},
                      'after': {a: after[0].get(a) for a in diff[:10]}},
                     monitor='model-unchanged', group='snapshot')
        # ---- the same evaluators after inputs were re-assigned: which
        # Evaluator instance is asked (an old one that has seen the old
        # values, or a fresh one) must not matter, whatever way the API
        # offers was used to assign the value
        from xlcalculator import xltypes
        route = rng.choice(['evaluator, address text', 'evaluator, XLCell',
                            'model, address text', 'model, XLCell'])
        wb2 = m.workbook()
        changed = rng.sample(m.inputs, min(len(m.inputs), rng.randint(1, 3)))
        if rng.random() < 0.6:
            # the failing cell and a cell that depends on it, asked several
            # times in either order by any of the evaluators: a failure is an
            # outcome like any other - the same whenever it is asked for
            dep_key = (home, 12, 2)
            asks = [fail_key, dep_key, fail_key, dep_key, fail_key]
            if rng.random() < 0.5:
                asks = [dep_key, fail_key, dep_key, fail_key]
            seen_f = {}
            for k in asks:
                got_f = subject.outcome_of(
                    lambda: rng.choice(evs).evaluate(build.addr(k)))
                ctx.event('failing_evaluations_before_reassignment')
                kind_f = (got_f[0], got_f[1].split(':')[0]
                          if got_f[0] == 'raised' else got_f[1])
                first = seen_f.setdefault(k, kind_f)
                if got_f[0] != 'raised' or kind_f != first:
                    ctx.fail(f'{build.addr(k)} (a formula calling a function '
                             f'that does not exist, or reading that cell) '
                             f'gave {got_f} when asked in the order '
                             f'{[build.addr(x) for x in asks]}; first outcome '
                             f'{first}',
                             {'cells': build.dict_of(wb), 'model': prov,
                              'asked_in_order': [build.addr(x) for x in asks],
                              'cell': build.addr(k), 'observed': got_f,
                              'first_outcome': first},
                             monitor='schedule-independence',
                             group='failing-cell')
                    break
            after_f = snapshot(model)
            ctx.event('snapshots')
            if after_f != after:
                diff = [a for a in set(after_f[0]) | set(after[0])
                        if after_f[0].get(a) != after[0].get(a)]
                ctx.fail(f'a failing evaluation changed the model: cells '
                         f'{diff[:5]}, formulae {after_f[2] != after[2]}',
                         {'cells': build.dict_of(wb), 'changed': diff[:10],
                          'before': {a: after[0].get(a) for a in diff[:10]},
                          'after': {a: after_f[0].get(a) for a in diff[:10]}},
                         monitor='model-unchanged', group='snapshot-failing')
        try:
            for k in changed:
                v = rng.choice([11, 12, 13, 0.25, -3])
                target = build.addr(k)
                if 'XLCell' in route:
                    target = xltypes.XLCell(target, None)
                (rng.choice(evs) if route.startswith('evaluator')
                 else model).set_cell_value(target, v)
                wb2.cells[k] = v
            want2 = {k: ref.to_norm(wb2.value(k)) for k in m.order}
        except ref.Undecided:
            want2 = None
        except Exception as e:  # noqa
            ctx.fail(f'set_cell_value ({route}) raised {e!r}',
                     {'cells': build.dict_of(wb), 'route': route},
                     monitor='construction', group='set')
            want2 = None
        if want2 is not None:
            ctx.event('reassigned_models')
            pool = evs + evaluators(model)[:1]
            sched = list(m.order)
            rng.shuffle(sched)
            for k in sched:
                i_ev = rng.randrange(len(pool))
                a = build.addr(k)
                got = subject.outcome_of(lambda: pool[i_ev].evaluate(a))
                ctx.event('evaluate_outcomes')
                ctx.event('evaluations_after_reassignment')
                ok = got == ('value', want2[k]) or (
                    got[0] == 'value' and want2[k] == ('blank',)
                    and got[1] == ('blank',))
                if not ok:
                    which = 'a fresh evaluator' if i_ev == len(pool) - 1 \
                        else f'evaluator #{i_ev} (created before the change)'
                    ctx.fail(f'{a} evaluated to {got} by {which} after '
                             f'{[build.addr(x) for x in changed]} were '
                             f're-assigned ({route}), reference {want2[k]}',
                             {'cells': build.dict_of(wb), 'model': prov,
                              'reassigned': {build.addr(x): wb2.cells[x]
                                             for x in changed},
                              'route': route, 'cell': a, 'observed': got,
                              'reference': want2[k]},
                             monitor='evaluator-independence',
                             group=f'reassigned:{route}')
        if ctx.want_sample() and rng.random() < 0.1:
            ctx.sample({'cells': build.dict_of(wb),
                        'schedules': len(perms), 'evaluators': n_ev,
                        'values': {build.addr(k): want[k] for k in formulas}})

    # ---- process-wide state of the numeric libraries: what a cell evaluates to
    # does not depend on whether some other cell (a power, a trigonometric
    # function ...) was evaluated before it in this process -------------------
    if ctx.shard in (4, 5, 6):
        cells_ = {'A1': 1e307, 'P1': '=A1^0+2^10', 'P2': '=POWER(2,0.5)',
                  'Q1': '=COS(0)*1E-300*1E-300', 'Q2': '=COS(0)*A1*100',
                  'Q3': '=DEGREES(A1)', 'Q4': '=SIN(1E-310)',
                  'Q5': '=EXP(-745.2)+LOG10(10)', 'Q6': '=RADIANS(1E-307)',
                  'Q7': '=PV(0,10,-100)', 'Q8': '=SQRT(1E-320)*SIGN(-2)'}
        targets = [a for a in cells_ if a != 'A1']
        seen_ = {}
        for rnd in range(4):
            order = list(targets)
            rng.shuffle(order)
            if rnd == 0:
                # the powers last in the first round
                order = [a for a in order if a[0] == 'Q'] + \
                    [a for a in order if a[0] == 'P']
            ev_ = Evaluator(subject.compile_dict(cells_))
            for a in order:
                got = subject.outcome_of(lambda: ev_.evaluate('Sheet1!' + a))
                ctx.event('evaluate_outcomes')
                ctx.event('numeric_state_outcomes')
                kind = got if got[0] == 'value' else (
                    'raised', got[1].split(':')[-1][:60])
                seen_.setdefault(a, []).append((rnd, order.index(a), kind))
        for a, obs in seen_.items():
            ctx.case(('numeric-state', a))
            if len({str(k) for _, _, k in obs}) > 1:
                ctx.fail(f'{cells_[a]} depends on what was evaluated before in '
                         f'this process: (round, position, outcome) = {obs}',
                         {'formula': cells_[a], 'cells': cells_,
                          'observations': [str(o) for o in obs]},
                         monitor='schedule-independence',
                         group='numeric-state:' + a)

    # ---- an application's own namespace belongs to ITS evaluator: an Evaluator
    # whose namespace replaces a builtin (SUM -> a constant) evaluates first;
    # evaluators created afterwards without a namespace compute the library's
    # results, over the same model and over a fresh one ------------------------
    if ctx.shard in (8, 9) or thorough:
        from xlcalculator.xlfunctions import xl as _xl
        cells_ns = {'A1': 1, 'A2': 2, 'A3': 3, 'B1': '=SUM(A1:A3)',
                    'B2': '=MAX(A1:A3)+SUM(A1,A2)', 'B3': '=IF(A1>0,SUM(A2:A3),0)'}
        want_ns = {'B1': 6.0, 'B2': 6.0, 'B3': 5.0}
        model_ns = subject.compile_dict(cells_ns)
        ns = dict(_xl.FUNCTIONS)
        ns['SUM'] = lambda *a: 1000
        ns['MAX'] = lambda *a: -1
        ev_own = Evaluator(model_ns, namespace=ns)
        for a in want_ns:
            subject.outcome_of(lambda: ev_own.evaluate(f'Sheet1!{a}'))
        for which, mdl in (('the same model', model_ns),
                           ('a fresh model', subject.compile_dict(cells_ns))):
            ev_def = Evaluator(mdl)
            for a, w in want_ns.items():
                got = subject.outcome_of(lambda: ev_def.evaluate(f'Sheet1!{a}'))
                ctx.event('evaluate_outcomes')
                ctx.event('default_after_own_namespace')
                if got != ('value', ('num', w)):
                    ctx.fail(f'{a} ({cells_ns[a]}) evaluated by a default '
                             f'Evaluator over {which}, created after another '
                             f'Evaluator had been given a namespace that '
                             f'replaces SUM and MAX: {got}, expected {w}',
                             {'cells': cells_ns, 'cell': a, 'observed': got,
                              'reference': w},
                             monitor='evaluator-independence',
                             group='namespace-leak')

    # ---- constants are never consumed: a sum over hundreds of cells whose
    # first cell holds a library Number object, texts that begin with an
    # apostrophe - every cell gives the same outcome however often and in
    # whatever order it is asked, and the constants stay what they were -------
    if ctx.shard in (4, 5, 6, 7) or thorough:
        from xlcalculator.xlfunctions import func_xltypes as T_
        S = 'Sheet1'
        for variant in ('big-sum', 'apostrophes', 'iterative-solvers'):
            if variant == 'iterative-solvers':
                # functions that search for a root: no cell's answer depends
                # on which search ran before it
                cells_ = {'A1': -1000, 'A2': 2350, 'A3': -1378.5,
                          'B1': 43831, 'B2': 44197, 'B3': 44562,
                          'C1': -500, 'C2': 200, 'C3': 450,
                          'E1': -100, 'E2': 10, 'E3': 300,
                          'D1': '=XIRR(A1:A3,B1:B3)',
                          'D2': '=XIRR(C1:C3,B1:B3)',
                          'D3': '=XIRR(E1:E3,B1:B3)', 'D4': '=IRR(C1:C3)',
                          'D5': '=IRR(E1:E3)', 'D6': '=XIRR(C1:C3,B1:B3)*1'}
                probes_ = ['D1', 'D2', 'D3', 'D4', 'D5', 'D6']
            elif variant == 'big-sum':
                n_ = rng.choice([256, 300, 400])
                cells_ = {f'A{i}': i for i in range(1, n_ + 1)}
                cells_.update({'B1': f'=SUM(A1:A{n_})',
                               'B2': f'=A1/SUM(A1:A{n_})',
                               'B3': f'=SUM(A1:A{n_})-SUM(A2:A{n_})',
                               'B4': '=A1+0'})
                probes_ = ['B1', 'B2', 'B3', 'B4', 'A1']
            else:
                cells_ = {'A1': "'007", 'A2': "''quoted''", 'A3': "'",
                          'A4': "O'Brien", 'B1': '=A1&A2&A3', 'B2': '=A2&"!"',
                          'B3': '=LEN(A1)+LEN(A2)+LEN(A3)', 'B4': '=A4&A1'}
                probes_ = ['B1', 'B2', 'B3', 'B4', 'A1', 'A2', 'A3']
            model_ = subject.compile_dict(cells_)
            ev_ = Evaluator(model_)
            if variant == 'big-sum':
                ev_.set_cell_value(f'{S}!A1', T_.Number(1))
            before_ = snapshot(model_)
            seen_ = {}
            for round_ in range(4):
                order = list(probes_)
                rng.shuffle(order)
                for a in order:
                    got = subject.outcome_of(lambda: ev_.evaluate(f'{S}!{a}'))
                    ctx.event('evaluate_outcomes')
                    ctx.event('constant_consumption_outcomes')
                    first = seen_.setdefault(a, got)
                    if got != first:
                        ctx.fail(f'{a} ({cells_.get(a)!r}, {variant}) '
                                 f'evaluated to {got} in round {round_} '
                                 f'(order {order}), before it was {first}',
                                 {'variant': variant, 'cell': a,
                                  'formula': cells_.get(a), 'observed': got,
                                  'first': first},
                                 monitor='schedule-independence',
                                 group='constants-consumed:' + variant)
            ctx.event('snapshots')
            after_ = snapshot(model_)
            if after_ != before_:
                diff = [a for a in set(before_[0]) | set(after_[0])
                        if before_[0].get(a) != after_[0].get(a)]
                ctx.fail(f'evaluation changed constants of the model '
                         f'({variant}): {[(a, before_[0].get(a), after_[0].get(a)) for a in diff[:4]]}',
                         {'variant': variant, 'changed': diff[:10]},
                         monitor='model-unchanged',
                         group='constants-consumed-snapshot:' + variant)

    # ---- long chains: the outcome of a cell (its value, or the failure once the
    # interpreter's stack is exhausted) is the same whatever was evaluated
    # before it and whichever evaluator is asked ------------------------------
    if ctx.shard in (1, 2, 3) or thorough:
        import sys
        limit_before = sys.getrecursionlimit()
        cells = {}
        heads = []
        for col, (style, n_) in enumerate([('plain', 100), ('plain', 180),
                                           ('plain', 300), ('plain', 600),
                                           ('if', 60), ('if', 100),
                                           ('if', 200), ('if', 320)]):
            c = ref.col_letters(col + 1)
            cells[f'{c}{n_ + 1}'] = 1
            for k in range(1, n_ + 1):
                nxt = f'{c}{k + 1}'
                cells[f'{c}{k}'] = f'={nxt}+1' if style == 'plain' else \
                    f'=IF({nxt}>0,{nxt}+1,0)'
            heads.append((f'Sheet1!{c}1', style, n_))
        try:
            model = subject.compile_dict(cells)
        except RecursionError:
            model = None
        if model is not None:
            evs = [Evaluator(model), Evaluator(model)]
            seen = {}
            for rnd in range(3):
                order = list(heads)
                rng.shuffle(order)
                for a, style, n_ in order:
                    got = subject.outcome_of(
                        lambda: rng.choice(evs).evaluate(a))
                    kind = got if got[0] == 'value' else (
                        'raised', 'recursion' if 'recursion' in got[1].lower()
                        else got[1][:80])
                    ctx.event('evaluate_outcomes')
                    ctx.event('long_chain_outcomes')
                    seen.setdefault((a, style, n_), []).append(
                        (rnd, [x[0] for x in order].index(a), kind))
            for (a, style, n_), obs in seen.items():
                kinds = {k for _, _, k in obs}
                ctx.case(('long-chain', style, n_, len(kinds)))
                if len(kinds) > 1:
                    ctx.fail(f'{a} (chain of {n_} cells linked by {style}) '
                             f'depends on what was evaluated before: '
                             f'(round, position, outcome) = {obs}',
                             {'chain': [style, n_], 'observations': obs},
                             monitor='schedule-independence',
                             group=f'long-chain:{style}')
                elif kinds == {('value', ('num', float(n_ + 1)))}:
                    pass
                elif next(iter(kinds))[0] == 'value':
                    ctx.fail(f'{a} (chain of {n_} cells) evaluates to '
                             f'{kinds}, expected {n_ + 1}',
                             {'chain': [style, n_]},
                             monitor='schedule-independence',
                             group='long-chain-value')
            if sys.getrecursionlimit() != limit_before:
                # (not judged by itself: only outcomes that differ are)
                ctx.note(f'recursion limit changed from {limit_before} to '
                         f'{sys.getrecursionlimit()} during evaluation')
                sys.setrecursionlimit(limit_before)

    # ---- growth -------------------------------------------------------------
    if True:
        shapes = [
            ('chain', {'A1': 1, 'B1': '=A1+1', 'C1': '=B1*2', 'D1': '=C1-A1'}),
            ('range', {'A1': 1, 'A2': 2, 'A3': 3, 'B1': '=SUM(A1:A3)',
                       'C1': '=B1+MAX(A1:A3)'}),
            ('diamond', {'A1': 2, 'B1': '=A1+1', 'B2': '=A1*2',
                         'C1': '=B1+B2', 'D1': '=IF(C1>3,B1,B2)'}),
            ('two-sheet', {'Sheet1!A1': 1, 'Data!A1': '=Sheet1!A1+1',
                           'Sheet1!B1': '=Data!A1*2'}),
            ('text', {'A1': 'ab', 'B1': '=A1&"c"', 'C1': '=LEN(B1)'}),
            ('error', {'A1': 0, 'B1': '=1/A1', 'C1': '=ISERROR(B1)'}),
            # cells that FAIL because a formula cell they refer to fails (the
            # failure travels up a chain), asked again and again
            ('failing-chain', {'A1': 1, 'A3': '=NOSUCHFUNCTION(A1)',
                               'A2': '=A3*2', 'B1': '=A2+1', 'B2': '=A2&"x"',
                               'B3': '=SUM(A1:A2)'}),
            # error values that travel: inside a range given to an
            # aggregate, through IF/AND, as a literal in the formula
            ('error-in-range', {'A1': 0, 'B1': '=1/A1', 'B2': 2,
                                'C1': '=SUM(B1:B2)', 'C2': '=MAX(B1:B2)',
                                'C3': '=SUM(B1,B2)'}),
            # ... read by functions that look at a range without handing
            # its errors on during argument validation
            ('error-in-range-inspected', {
                'A1': 0, 'B1': '=1/A1', 'B2': 2, 'B3': '=SQRT(A1-1)',
                'B4': '=B2/A1', 'C1': '=OR(B1:B4)', 'C2': '=AND(B1:B4)',
                'C3': '=COUNT(B1:B4)', 'C4': '=COUNTA(B1:B4)',
                'C5': '=ISERROR(B1)', 'C6': '=COUNTIF(B1:B4,2)'}),
            ('error-literal', {'A1': 1, 'B1': '=IF(A1>5,A1,#N/A)',
                               'C1': '=SUM(B1,2,1)', 'C2': '=IF(B1,1,2)',
                               'C3': '=AND(A1,B1)'}),
            ('error-through-logic', {'A1': 0, 'B1': '=IF(1/A1,1,2)',
                                     'C1': '=NOT(B1)', 'C2': '=OR(A1,B1)',
                                     'C3': '=B1&"x"'}),
            ('lookup', {'A1': 1, 'A2': 2, 'A3': 3, 'B1': 'x', 'B2': 'y',
                        'B3': 'z', 'C1': '=VLOOKUP(2,A1:B3,2,FALSE)',
                        'C2': '=MATCH(9,A1:A3,0)',
                        'C3': '=COUNTIF(A1:A3,">1")'}),
            ('dates', {'A1': 43831, 'B1': '=YEAR(A1)', 'B2': '=EDATE(A1,1)',
                       'B3': '=DATE(2020,1,31)-A1'}),
            ('many-evaluators', {'A1': 2, 'B1': '=A1+1', 'B2': '=SUM(A1:B1)',
                                 'C1': '=IF(B2>3,B1,A1)'}),
            ('many-evaluators-names', {'A1': 2, 'B1': '=A1*3',
                                       'C1': '=MAX(A1,B1)&"x"'}),
        ]
        if ctx.shard < len(shapes):
            label, cells = shapes[ctx.shard]
            model = subject.compile_dict(cells)
            addrs = [a if '!' in a else 'Sheet1!' + a for a in cells]
            leak_run(ctx, model, addrs, 20000 if thorough else 1500, label)
