"""C06 — cycles are reported, acyclic sharing is never flagged.

Events: entries/exits of Evaluator.evaluate (count, nesting), outcome class and
len(str(exception)).  "Promptly" is a bounded-progress property on logical
steps: the step-budget monitor aborts an evaluation (MonitorAbort) when it
exceeds 4(n+1)^2 entries or nesting n+2 on a graph of n cells.
"""
import os

from vlib import bootstrap, build, monitors, ref, subject
from vlib.harness import MonitorAbort

PROPERTY = 'C06'
RULE = ('dependency graphs: every cycle length 1-6 x entry on the cycle or via '
        'a tail of 1-5, cycles closed through a range member, through a '
        'defined name (xlsx) and across sheets; acyclic decoys (=A1+A1, '
        '=A1*A1+A1, diamonds depth 1-6, a cell reached along 2-8 paths, chains '
        'to depth 100, chains of depth 150-1200 that exhaust the interpreter '
        'stack); failure injection (unknown function / Python error) '
        'at every depth of chains of length 5-60; random digraphs on <= 9 '
        'cells.  distinct non-trivial = distinct (shape, length, entry, '
        'closing construct, outcome class)')
ASSUMPTIONS = [
    'termination "promptly" restated as: a cyclic start cell ends in an '
    'exception mentioning "cycle" within 4(n+1)^2 Evaluator.evaluate entries '
    'and nesting <= n+2 (n = cells of the graph); failure text <= '
    '400*(d+2)^2 characters for a travelled chain of length d',
    'reference reachability/cycle analysis in vlib/ref.py',
]
FLOORS = {'cyclic_cases': 100, 'acyclic_cases': 100, 'failure_cases': 100,
          'budget_armed': 200, 'evaluate_entries_seen': 1000,
          'deep_chain_cases': 6, 'derived_models': 50,
          'absolute_cycles': 60, 'linked_workbook_cases': 8,
          'long_cycles': 10, 'percent_in_cycle': 30,
          'bare_reference_rings': 30, 'dormant_ring_cases': 8,
          'nested_sheet_name_decoys': 20, 'non_ascii_cycles': 10,
          'error_left_operand_or_thread_cycles': 40}
ANCHOR_FUNCS = {
    'xlcalculator/evaluator.py': ['Evaluator.evaluate',
                                  'EvaluatorContext.eval_cell'],
    'xlcalculator/ast_nodes.py': ['RangeNode.eval'],
}
TIMEOUT = {'quick': 600, 'thorough': 2400}
MEM_GB = 2

S = 'Sheet1'


def shards(tier):
    return 8


def R(col, row, sheet=None):
    return ('ref', sheet, col, row, False, False)


def plus(*xs):
    a = xs[0]
    for b in xs[1:]:
        a = ('bin', '+', a, b)
    return a


ONE = ('lit', 1, '1')


def cycle_graph(length, tail, closing, sheets, absolute='none',
                addend=None):
    """cells in column A; the cycle is rows tail+1 .. tail+length, the tail
    rows 1..tail lead into it.  absolute: how every reference is spelt
    (A1, $A$1, $A1, A$1).  -> (cells, names, start key, n cells)"""
    cells, names = {}, {}
    ac, ar = {'none': (False, False), 'all': (True, True),
              'col': (True, False), 'row': (False, True)}[absolute]
    fl = (ac, ar, ac, ar)
    s_of = (lambda i: sheets[i % len(sheets)])
    total = tail + length
    for i in range(1, total + 1):
        nxt = i + 1 if i < total else tail + 1      # last closes the cycle
        s, sn = s_of(i), s_of(nxt)
        target = ('ref', sn if sn != s else None, 1, nxt, ac, ar)
        if i == total:
            if closing == 'range':
                # close through a range that contains the cycle's first cell
                lo = min(tail + 1, max(1, tail))
                target = ('call', 'SUM', [('rng', sn if sn != s else None, 1,
                                           tail + 1, 1, tail + 1 + (
                                               1 if length > 1 else 0),
                                           fl)])
                if len(sheets) > 1:
                    # members of the range live on sheet sn: only row tail+1
                    # is guaranteed to be there
                    target = ('call', 'SUM', [('rng', sn if sn != s else None,
                                               1, tail + 1, 1, tail + 1,
                                               fl)])
            elif closing == 'name':
                names['CYC'] = ('ref', sn, 1, nxt, True, True)
                target = ('name', 'CYC')
        cells[(s, 1, i)] = ('f', target if addend == 'bare' and
                            target[0] == 'ref' else
                            plus(target, ONE if addend in (None, 'bare')
                                 else addend))
    return cells, names, (s_of(1), 1, 1), total


def classify_outcome(got):
    if got[0] == 'value':
        return 'value'
    if got[0] == 'abort':
        return 'abort'
    return 'cycle-report' if 'cycle' in got[1].lower() else 'other-exception'


class Case:
    def __init__(self, ctx, rec):
        self.ctx, self.rec = ctx, rec

    def build(self, cells, names, path, derive=True):
        wb = ref.Workbook(cells, names)
        out = os.path.join(bootstrap.VERIF, 'out', 'c06')
        if path == 'xlsx' or names:
            os.makedirs(out, exist_ok=True)
            model = build.model_from_xlsx(
                wb, os.path.join(out, f's{self.ctx.shard}.xlsx'))
        else:
            first = sorted({k[0] for k in cells})[0]
            model = build.model_from_dict(wb, default_sheet=first)
        # the graph is the same in every Model the API derives from it
        self.provenance = 'compiled'
        if derive and self.ctx.rng.random() < 0.3:
            self.provenance = self.ctx.rng.choice(
                ['extracted', 'json', 'deepcopy'])
            model = build.derive(model, self.provenance, os.path.join(
                out, f's{self.ctx.shard}.json'))
            self.ctx.event('derived_models')
        return wb, model

    def evaluate(self, model, key, n_cells, depth=None, ev=None):
        from xlcalculator import Evaluator
        ev = ev if ev is not None else Evaluator(model)
        self.last_evaluator = ev
        budget = 4 * (n_cells + 1) ** 2
        self.rec.arm(budget=budget, depth_budget=n_cells + 2)
        self.ctx.event('budget_armed')
        a = build.addr(key)
        msg_len = 0
        try:
            v = ev.evaluate(a)
            got = ('value', monitors.norm(v))
        except MonitorAbort as e:
            got = ('abort', str(e))
        except RecursionError:
            got = ('raised', 'RecursionError')
        except MemoryError:
            got = ('raised', 'MemoryError')
            msg_len = 10 ** 9
        except BaseException as e:  # noqa
            text = str(e)
            msg_len = len(text)
            got = ('raised', f'{type(e).__name__}: ' + text[:200] +
                   (' ... ' + text[-100:] if len(text) > 300 else ''),
                   'cycle' in text.lower())
            if got[2]:
                got = ('raised', got[1] + ' [mentions cycle]')
            else:
                got = ('raised', got[1])
            del text
        entries, nesting = self.rec.entries, self.rec.max_depth
        self.rec.arm()
        self.ctx.event('evaluate_entries_seen', entries)
        return got, entries, nesting, msg_len, budget


def run(ctx):
    rng = ctx.rng
    rec = monitors.EvalRecorder().install()
    monitors.Spies().install()
    C = Case(ctx, rec)
    thorough = ctx.tier == 'thorough'
    sh, n = ctx.shard, ctx.nshards
    work = 0

    def mine():
        nonlocal work
        work += 1
        return work % n == sh

    def judge_cyclic(desc, key, wb, model, start, ncells):
        got, entries, nesting, msg_len, budget = C.evaluate(
            model, start, ncells)
        cls = classify_outcome(got)
        ctx.event('cyclic_cases')
        ctx.case(key + (cls,))
        if ctx.want_sample() and rng.random() < 0.05:
            ctx.sample({'graph': desc, 'start': build.addr(start),
                        'outcome': cls, 'evaluate_entries': entries,
                        'max_nesting': nesting, 'message_chars': msg_len})
        bad = []
        if cls != 'cycle-report':
            bad.append(f'outcome {cls}: {str(got)[:200]}')
        if msg_len > 400 * (ncells + 2) ** 2:
            bad.append(f'message of {msg_len} characters')
        if bad:
            ctx.fail(f'cyclic graph {desc} ({C.provenance} model) from '
                     f'{build.addr(start)}: '
                     + '; '.join(bad) + f' (entries={entries} of budget '
                     f'{budget}, nesting={nesting})',
                     {'graph': desc, 'cells': build.dict_of(wb),
                      'start': build.addr(start), 'outcome': str(got)[:400],
                      'entries': entries, 'nesting': nesting,
                      'message_chars': msg_len}, monitor='cycle-reported',
                     group='cyclic:' + key[0] + ':' + cls)

    def judge_acyclic(desc, key, wb, model, start, ncells, ev=None):
        got, entries, nesting, msg_len, budget = C.evaluate(
            model, start, ncells, ev=ev)
        cls = classify_outcome(got)
        want = ('value', ref.to_norm(wb.value(start)))
        ctx.event('acyclic_cases')
        ctx.case(key + (cls,))
        if got != want:
            ctx.fail(f'acyclic graph {desc} ({C.provenance} model) from '
                     f'{build.addr(start)}: '
                     f'outcome {cls} {str(got)[:200]}, reference {want} '
                     f'(entries={entries}, budget={budget})',
                     {'graph': desc, 'cells': build.dict_of(wb),
                      'start': build.addr(start), 'outcome': str(got)[:400]},
                     monitor='acyclic-never-flagged',
                     group='acyclic:' + key[0] + ':' + cls)

    # ---- cycles: length x tail x closing x sheets ---------------------------
    for length in range(1, 7):
        for tail in range(0, 6):
            for closing in ('ref', 'range', 'name'):
                for sheets in (['Sheet1'], ['Sheet1', 'Data'],
                               ['Sheet1', 'My Sheet', 'Data'],
                               # names that begin with punctuation / contain
                               # one another
                               ['(old) data', 'Net Sales', 'Sales']):
                    if not mine():
                        continue
                    if closing == 'name' and not (thorough or
                                                  (length + tail) % 3 == 0):
                        continue
                    absolute = ['none', 'all', 'col', 'row', 'none', 'all'][
                        work % 6] if not thorough else rng.choice(
                            ['none', 'all', 'col', 'row'])
                    # a percent sign / a text with one in the formulas the
                    # report travels through
                    addend = [None, ('lit', 0.5, '50%'), 'bare',
                              ('call', 'LEN', [('lit', '100%d', '"100%d"')]),
                              'bare', None][(work // 6) % 6]
                    if addend == 'bare':
                        # every cell of the ring is a bare reference (=A2)
                        ctx.event('bare_reference_rings')
                    elif addend is not None:
                        ctx.event('percent_in_cycle')
                    cells, names, start, total = cycle_graph(
                        length, tail, closing, sheets, absolute, addend)
                    ctx.event('absolute_cycles' if absolute != 'none'
                              else 'relative_cycles')
                    desc = (f'cycle length {length}, tail {tail}, closed by '
                            f'{closing}, {len(sheets)} sheet(s), references '
                            f'spelt {({"none": "A1", "all": "$A$1", "col": "$A1", "row": "A$1"})[absolute]}')
                    try:
                        wb, model = C.build(cells, names, 'dict')
                    except Exception as e:  # noqa
                        ctx.fail(f'building {desc} raised {e!r}',
                                 {'graph': desc}, monitor='construction',
                                 group='build')
                        continue
                    # the reference must agree that it is cyclic
                    try:
                        wb.value(start)
                        ctx.inconclusive_because(
                            f'generator: {desc} is not cyclic')
                        continue
                    except ref.RefCycle:
                        pass
                    judge_cyclic(desc, ('cycle', length, tail, closing,
                                        len(sheets), absolute), wb, model,
                                 start, total)
                    # entry in the middle of the cycle as well
                    if length > 1:
                        mid = (sheets[(tail + 2) % len(sheets)], 1, tail + 2)
                        judge_cyclic(desc + ' entered mid-cycle',
                                     ('cycle-mid', length, tail, closing,
                                      len(sheets)), wb, model, mid, total)

    # ---- a ring that is dormant at first: its closing link sits in the branch
    # of an IF that is not taken; every cell is evaluated (values), then the
    # switch is flipped on the same Evaluator: now it is a cycle; flipped back:
    # values again ----------------------------------------------------------
    if sh in (0, 1, 2, 3) or thorough:
        from xlcalculator import Evaluator
        for n_ring in (1, 2, 3, 5):
            for closing in ('ref', 'range'):
                cells = {'S1': False}
                for i in range(1, n_ring):
                    cells[f'A{i}'] = f'=A{i + 1}+1'
                back = 'A1' if closing == 'ref' else 'SUM(A1:A1)'
                cells[f'A{n_ring}'] = f'=IF(S1,{back},5)+1'
                ev = Evaluator(subject.compile_dict(cells))
                desc = (f'dormant ring of {n_ring} cell(s) closed by {closing} '
                        f'inside IF(S1,...)')
                bad = []

                def sweep(tag, expect_cycle):
                    for i in range(1, n_ring + 1):
                        rec.arm(budget=4 * (n_ring + 3) ** 2,
                                depth_budget=n_ring + 4)
                        ctx.event('budget_armed')
                        try:
                            got = subject.outcome_of(
                                lambda: ev.evaluate(f'Sheet1!A{i}'))
                        except MonitorAbort as e:
                            got = ('abort', str(e))
                        rec.arm()
                        if expect_cycle:
                            if not (got[0] == 'raised' and
                                    'cycle' in got[1].lower()):
                                bad.append(f'[{tag}] A{i} -> {str(got)[:120]}')
                        else:
                            want = ('value', ('num', float(
                                6 + n_ring - i)))
                            if got != want:
                                bad.append(f'[{tag}] A{i} -> {str(got)[:120]}'
                                           f', expected {want[1]}')
                sweep('switch off', False)
                ev.set_cell_value('Sheet1!S1', True)
                sweep('switch on: a cycle', True)
                ev.set_cell_value('Sheet1!S1', False)
                sweep('switch off again', False)
                ctx.event('cyclic_cases')
                ctx.event('dormant_ring_cases')
                ctx.case(('dormant-ring', n_ring, closing, bool(bad)))
                if bad:
                    ctx.fail(f'{desc}: ' + '; '.join(bad[:4]),
                             {'cells': cells, 'problems': bad[:10]},
                             monitor='cycle-reported',
                             group=f'dormant:{closing}:{bad[0][:14]}')

    # ---- long cycles (the chain back to the start is longer than any small
    # window of "recently entered" cells) ------------------------------------
    for length in (64, 65, 66, 100, 150):
        for tail in (0, 3):
            for closing in ('ref', 'range'):
                if not mine():
                    continue
                cells, names, start, total = cycle_graph(
                    length, tail, closing, ['Sheet1'])
                desc = (f'cycle length {length}, tail {tail}, closed by '
                        f'{closing}')
                wb, model = C.build(cells, names, 'dict', derive=False)
                ctx.event('long_cycles')
                judge_cyclic(desc, ('long-cycle', length, tail, closing), wb,
                             model, start, total)
                mid = ('Sheet1', 1, tail + length // 2)
                judge_cyclic(desc + ' entered mid-cycle',
                             ('long-cycle-mid', length, tail, closing), wb,
                             model, mid, total)

    # ---- cycles and failing chains on sheets with non-ASCII names (the report
    # names every cell once: its size grows with the length of the chain, not
    # faster) -----------------------------------------------------------------
    for sname in ('\u00dcbersicht', '\u58f2\u4e0a', 'Donn\u00e9es 1'):
        for length in (12, 16, 20):
            for closing in ('ref', 'range'):
                if not mine():
                    continue
                cells, names, start, total = cycle_graph(
                    length, 2, closing, [sname])
                desc = (f'cycle length {length}, tail 2, closed by {closing}, '
                        f'on the sheet {sname!r}')
                try:
                    wb, model = C.build(cells, names, 'dict', derive=False)
                except Exception as e:  # noqa
                    ctx.fail(f'building {desc} raised {e!r}', {'graph': desc},
                             monitor='construction', group='build')
                    continue
                ctx.event('non_ascii_cycles')
                judge_cyclic(desc, ('non-ascii-cycle', sname, length,
                                    closing), wb, model, start, total)
    # ---- a cycle that is closed through the RIGHT operand of an operator whose
    # left operand is an error value; and the same Evaluator asked from another
    # thread than the one that built it ---------------------------------------
    if sh in (4, 5, 6, 7) or thorough:
        from xlcalculator import Evaluator as _Ev
        import threading
        rings = {
            'B1=1/0; C1=B1+C1': ({'B1': '=1/0', 'C1': '=B1+C1'}, ['C1']),
            'NA()&C2 ring': ({'C2': '=NA()&C3', 'C3': '=C2'}, ['C2', 'C3']),
            '#REF!*C3': ({'C3': '=#REF!*C4', 'C4': '=C3+1'}, ['C3', 'C4']),
            'error cell left, 3-ring': (
                {'E1': '=SQRT(-1)', 'A1': '=E1+A2', 'A2': '=A3*2',
                 'A3': '=SUM(A1:A1)-1'}, ['A1', 'A2', 'A3']),
            'error left of a comparison': (
                {'E1': '=1/0', 'A1': '=E1<A2', 'A2': '=A1'}, ['A1', 'A2']),
            'healthy left (control)': (
                {'B1': 5, 'C1': '=B1+C1'}, ['C1']),
        }
        for desc, (cells, starts) in rings.items():
            for threaded in (False, True):
                ev = _Ev(subject.compile_dict(cells))
                for a in starts:
                    box = []

                    def ask(a=a):
                        box.append(subject.outcome_of(
                            lambda: ev.evaluate(f'Sheet1!{a}')))
                    if threaded:
                        th = threading.Thread(target=ask)
                        th.start()
                        th.join(120)
                    else:
                        ask()
                    got = box[0] if box else ('raised', 'no answer from the '
                                              'worker thread within 120 s')
                    ctx.event('cyclic_cases')
                    ctx.event('error_left_operand_or_thread_cycles')
                    ctx.case(('error-left-cycle', desc, a, threaded))
                    ok = got[0] == 'raised' and 'cycle' in got[1].lower() \
                        and len(got[1]) < 4000
                    if not ok:
                        ctx.fail(f'cycle "{desc}" entered at {a}'
                                 f'{" from a worker thread (the Evaluator was built in the main thread)" if threaded else ""}: '
                                 f'outcome {str(got)[:200]} '
                                 f'({len(str(got))} characters), expected a '
                                 f'cycle report',
                                 {'cells': cells, 'start': a,
                                  'thread': 'worker' if threaded else 'main',
                                  'outcome': str(got)[:600]},
                                 monitor='cycle-reported',
                                 group=f'error-left-cycle:{threaded}:'
                                       f'{got[0]}')
        # acyclic models from a worker thread: values as in the main thread
        ev = _Ev(subject.compile_dict({'A1': 2, 'B1': '=A1*3',
                                       'C1': '=B1+A1', 'D1': '=SUM(A1:C1)'}))
        box = []
        th = threading.Thread(target=lambda: box.append(subject.outcome_of(
            lambda: ev.evaluate('Sheet1!D1'))))
        th.start()
        th.join(120)
        ctx.event('acyclic_cases')
        if box != [('value', ('num', 16.0))]:
            ctx.fail(f'acyclic model evaluated from a worker thread: {box}',
                     {'observed': str(box)}, monitor='acyclic-never-flagged',
                     group='thread-acyclic')

    # ---- acyclic decoys -------------------------------------------------------
    def decoys():
        a1 = R(1, 1)
        yield 'A1+A1', {(S, 1, 1): 3, (S, 2, 1): ('f', plus(a1, a1))}, \
            (S, 2, 1)
        yield 'A1*A1+A1', {(S, 1, 1): 3, (S, 2, 1): (
            'f', plus(('bin', '*', a1, a1), a1))}, (S, 2, 1)
        yield 'SUM(A1:A1,A1)+A1', {(S, 1, 1): 3, (S, 2, 1): (
            'f', plus(('call', 'SUM', [('rng', None, 1, 1, 1, 1,
                                        (False,) * 4), a1]), a1))}, (S, 2, 1)
        for depth in range(1, 7):
            # diamond ladder: level k has two cells that both use both cells
            # of level k+1
            cells = {(S, 1, depth + 1): 1, (S, 2, depth + 1): 2}
            for k in range(depth, 0, -1):
                for c in (1, 2):
                    cells[(S, c, k)] = ('f', plus(R(1, k + 1), R(2, k + 1)))
            top = (S, 3, 1)
            cells[top] = ('f', plus(R(1, 1), R(2, 1)))
            yield f'diamond ladder depth {depth}', cells, top
        for paths in range(2, 9):
            cells = {(S, 1, 1): 5}
            for p in range(paths):
                cells[(S, 2, p + 1)] = ('f', plus(R(1, 1), ('lit', p, str(p))))
            top = (S, 3, 1)
            cells[top] = ('f', plus(*[R(2, p + 1) for p in range(paths)]))
            yield f'one cell reached along {paths} paths', cells, top
            # the same through a range
            top2 = (S, 4, 1)
            cells = dict(cells)
            cells[top2] = ('f', plus(('call', 'SUM', [(
                'rng', None, 2, 1, 2, paths, (False,) * 4)]), R(1, 1)))
            yield f'one cell reached along {paths} paths via a range', \
                cells, top2
        # a formula whose OWN coordinates lie inside a range it reads on
        # ANOTHER sheet (same column and row, different sheet: no cycle)
        F4_ = (False,) * 4
        data = {('Data', c, r): c * 10 + r for c in range(1, 4)
                for r in range(1, 4)}
        cells = dict(data)
        cells[('Summary', 2, 2)] = ('f', ('call', 'SUM', [
            ('rng', 'Data', 1, 1, 3, 3, F4_)]))
        yield 'Summary!B2 = SUM(Data!A1:C3)', cells, ('Summary', 2, 2)
        cells = dict(data)
        cells[('Summary', 1, 1)] = ('f', plus(('call', 'SUM', [
            ('rng', 'Data', 1, 1, 1, 3, F4_)]), ('ref', 'Data', 1, 1, False,
                                                  False)))
        cells[('Summary', 1, 2)] = ('f', plus(R(1, 1), ONE))
        yield 'Summary!A2 -> Summary!A1 = SUM(Data!A1:A3)+Data!A1', cells, \
            ('Summary', 1, 2)
        cells = {('S1', c, r): 1 for c in (1, 2) for r in (1, 2)}
        cells.update({('S2', c, r): 2 for c in range(1, 5)
                      for r in range(1, 5) if (c, r) != (4, 4)})
        cells[('S2', 4, 4)] = ('f', ('call', 'SUM', [
            ('rng', 'S1', 1, 1, 2, 2, F4_)]))
        cells[('S1', 3, 3)] = ('f', ('call', 'SUM', [
            ('rng', 'S2', 1, 1, 4, 4, F4_)]))
        yield 'two sheets totalling each other\'s blocks', cells, ('S1', 3, 3)
        cells = dict(data)
        cells[('Summary', 3, 1)] = ('f', ('call', 'IF', [
            ('lit', True, 'TRUE'), ('call', 'MAX', [
                ('rng', 'Data', 2, 1, 3, 2, F4_)]), ('lit', 0, '0')]))
        yield 'Summary!C1 = IF(TRUE,MAX(Data!B1:C2),0)', cells, \
            ('Summary', 3, 1)
        # sheets whose names contain one another ('Sales' / 'Net Sales'): the
        # same coordinates on the two sheets are different cells
        for short, long_ in (('Sales', 'Net Sales'), ('Q1', 'FY24-Q1'),
                             ('Costs', 'Total Costs'), ('Data', 'Data (2)'),
                             ('a', 'a.a'), ('Plan', "Plan's"), ('X', 'X X'),
                             # names that differ only in blanks around them
                             ('Plan', 'Plan '), ('Q', 'Q\u00a0'),
                             ('lead', ' lead'), ('T', 'T\u2009')):
            blank_twin = short.strip() == long_.strip() or \
                long_.strip('\u00a0\u2009 ') == short
            base = {(short, 2, 2): ('f', plus(R(1, 1, short), ONE)),
                    (short, 1, 1): 10, ('Returns', 2, 2): 3}
            cells = dict(base)
            cells[(long_, 2, 2)] = ('f', ('bin', '-', R(2, 2, short),
                                          R(2, 2, 'Returns')))
            yield f'nested names: {long_}!B2 = {short}!B2-Returns!B2', cells, (long_, 2, 2)
            cells = dict(base)
            cells[(long_, 2, 2)] = ('f', ('call', 'IF', [
                ('lit', True, 'TRUE'), R(2, 2, short), ('lit', 0, '0')]))
            cells[(long_, 3, 3)] = ('f', plus(R(2, 2), ONE))
            yield f'nested names: {long_}!C3 -> {long_}!B2 = IF(TRUE,{short}!B2,0)', cells, \
                (long_, 3, 3)
            cells = dict(base)
            cells[(short, 2, 3)] = 4
            cells[(long_, 2, 2)] = ('f', ('call', 'SUM', [
                ('rng', short, 2, 2, 2, 3, F4_)]))
            if not blank_twin:
                # (a multi-cell range on a sheet whose name differs from
                # another one only in surrounding blanks is outside this check)
                yield f'nested names: {long_}!B2 = SUM({short}!B2:B3)', \
                    cells, (long_, 2, 2)
            # and the other way round: the short name needs the long one
            cells = {(long_, 2, 2): ('f', plus(R(1, 1, long_), ONE)),
                     (long_, 1, 1): 10,
                     (short, 2, 2): ('f', plus(R(2, 2, long_), ONE))}
            yield f'nested names: {short}!B2 = {long_}!B2+1', cells, (short, 2, 2)
        for depth in (6, 12, 22):
            # every cell refers to the next one TWICE and hands a blank on
            cells = {}
            for k in range(1, depth + 1):
                nxt = R(1, k + 1)
                cells[(S, 1, k)] = ('f', ('call', 'IF', [
                    ('call', 'ISBLANK', [nxt]), nxt, ('lit', 0, '0')]))
            yield f'blank-passing chain of depth {depth} (2 references per ' \
                f'level)', cells, (S, 1, 1)
            cells = dict(cells)
            cells[(S, 1, depth + 1)] = 7
            yield f'value-passing chain of depth {depth} (2 references per ' \
                f'level)', cells, (S, 1, 1)
        for depth in (10, 25, 50, 75, 100):
            cells = {(S, 1, depth + 1): 1}
            for k in range(1, depth + 1):
                cells[(S, 1, k)] = ('f', plus(R(1, k + 1), ONE))
            yield f'chain of depth {depth}', cells, (S, 1, 1)
    for desc, cells, start in decoys():
        if not mine():
            continue
        try:
            wb, model = C.build(cells, {}, 'dict')
        except Exception as e:  # noqa
            ctx.fail(f'building {desc} raised {e!r}', {'graph': desc},
                     monitor='construction', group='build')
            continue
        if desc.startswith('nested names'):
            ctx.event('nested_sheet_name_decoys')
        judge_acyclic(desc, ('decoy', desc), wb, model, start, len(cells))
        judge_acyclic(desc + ' (same evaluator again)', ('decoy2', desc), wb,
                      model, start, len(cells), ev=C.last_evaluator)

    # ---- two acyclic workbooks, one reading the other through a user function ---
    # (an application-level link: the outer formula calls EXTERNAL(address),
    # which asks the OTHER workbook's own Evaluator; both evaluations are in
    # progress at the same time and touch equal addresses)
    if sh == 0 or thorough:
        from xlcalculator import Evaluator
        from xlcalculator.xlfunctions import xl
        layouts = {
            'same address': (
                {'A1': '=EXTERNAL("Sheet1!A1")+1'},
                {'A1': '=A2+1', 'A2': 5}, 'Sheet1!A1', 7.0),
            'end of a chain': (
                {'A1': '=A2+1', 'A2': '=A3*2', 'A3': '=EXTERNAL("Sheet1!A2")'},
                {'A1': '=A2+1', 'A2': '=A3+1', 'A3': 1}, 'Sheet1!A1', 5.0),
            'diamond': (
                {'A1': '=B1+B2', 'B1': '=EXTERNAL("Sheet1!A1")',
                 'B2': '=EXTERNAL("Sheet1!B1")+A3', 'A3': 2},
                {'A1': '=B1*2', 'B1': '=A3+1', 'A3': 3}, 'Sheet1!A1', 14.0),
            'inner reads the outer address through a range': (
                {'A1': '=SUM(B1:B2)', 'B1': '=EXTERNAL("Sheet1!C1")', 'B2': 1},
                {'C1': '=SUM(A1:B1)', 'A1': 2, 'B1': 3}, 'Sheet1!A1', 6.0),
        }
        for lname, (outer, inner, start, want_v) in layouts.items():
            for rep in range(2):
                m_in = subject.compile_dict(inner)
                m_out = subject.compile_dict(outer)
                ev_in = Evaluator(m_in)
                ns = xl.FUNCTIONS.copy()
                ns['EXTERNAL'] = lambda a, ev_in=ev_in: ev_in.evaluate(str(a))
                ev_out = Evaluator(m_out, namespace=ns)
                if rep:
                    # the inner workbook has been evaluated before
                    ev_in.evaluate('Sheet1!A1')
                rec.arm(budget=400, depth_budget=40)
                ctx.event('budget_armed')
                got = subject.outcome_of(lambda: ev_out.evaluate(start))
                rec.arm()
                cls = classify_outcome(got if got[0] == 'value' else
                                       ('raised', got[1]))
                ctx.event('acyclic_cases')
                ctx.event('linked_workbook_cases')
                ctx.case(('linked-workbooks', lname, rep, cls))
                if got != ('value', ('num', want_v)):
                    ctx.fail(f'two acyclic workbooks linked through a user '
                             f'function ({lname}): {start} -> {got}, expected '
                             f'{want_v}', {'outer': outer, 'inner': inner,
                                           'observed': got},
                             monitor='acyclic-never-flagged',
                             group=f'linked:{lname}:{cls}')

    # ---- chains deeper than the interpreter's call stack allows ----------------
    # Whatever such an evaluation ends in (the value, or a failure because the
    # interpreter's stack is exhausted), the graph is acyclic: the report must
    # not speak of a cycle, and its text stays polynomial in the depth.
    for depth in (150, 300, 600, 1200) + ((2500,) if thorough else ()):
        for style in ('plus', 'range', 'if'):
            if not mine():
                continue
            cells = {(S, 1, depth + 1): 1}
            for k in range(1, depth + 1):
                nxt = R(1, k + 1)
                if style == 'plus':
                    f = plus(nxt, ONE)
                elif style == 'range':
                    f = ('call', 'SUM', [('rng', None, 1, k + 1, 1, k + 1,
                                          (False,) * 4), ONE])
                else:
                    f = ('call', 'IF', [('lit', True, 'TRUE'),
                                        plus(nxt, ONE), ('lit', 0, '0')])
                cells[(S, 1, k)] = ('f', f)
            desc = f'chain of depth {depth} linked by {style}'
            try:
                wb, model = C.build(cells, {}, 'dict', derive=False)
            except RecursionError:
                ctx.event('deep_chain_not_buildable')
                continue
            got, entries, nesting, msg_len, budget = C.evaluate(
                model, (S, 1, 1), len(cells))
            cls = classify_outcome(got)
            ctx.event('deep_chain_cases')
            ctx.case(('deep-chain', depth, style, cls))
            want = ('value', ('num', float(depth + 1)))
            bad = []
            if cls == 'cycle-report':
                bad.append(f'a cycle is reported: {str(got)[:200]}')
            elif cls == 'value' and got != want:
                bad.append(f'value {got}, reference {want}')
            elif cls == 'abort':
                bad.append(f'step budget exceeded: {got}')
            if msg_len > 400 * (depth + 2) ** 2:
                bad.append(f'failure text of {msg_len} characters')
            if ctx.want_sample():
                ctx.sample({'graph': desc, 'outcome': cls,
                            'evaluate_entries': entries,
                            'message_chars': msg_len})
            if bad:
                ctx.fail(f'acyclic {desc}: ' + '; '.join(bad),
                         {'graph': desc, 'outcome': str(got)[:400],
                          'entries': entries, 'message_chars': msg_len},
                         monitor='acyclic-never-flagged',
                         group=f'deep:{style}:{cls}')

    # ---- failure injection at every depth --------------------------------------
    # link styles: how one cell of the chain reaches the next one
    def link(style, nxt):
        if style == 'plus':
            return plus(nxt, ONE)
        if style == 'if':
            return ('call', 'IF', [('lit', True, 'TRUE'), plus(nxt, ONE),
                                   ('lit', 0, '0')])
        if style == 'if-cond':
            return ('call', 'IF', [('bin', '>', nxt, ('lit', 0, '0')), ONE,
                                   ('lit', 2, '2')])
        if style == 'not':
            return ('call', 'NOT', [nxt])
        if style == 'and':
            return ('call', 'AND', [('lit', True, 'TRUE'), nxt])
        if style == 'or':
            return ('call', 'OR', [('lit', False, 'FALSE'), nxt])
        if style == 'sum':
            return ('call', 'SUM', [nxt, ONE])
        if style == 'range':
            return ('call', 'SUM', [('rng', None, nxt[2], nxt[3], nxt[2],
                                     nxt[3], (False,) * 4), ONE])
        if style == 'neg':
            return ('neg', nxt)
        if style == 'percent':
            return ('bin', '*', nxt, ('lit', 0.5, '50%'))
        if style == 'percent-text':
            return ('bin', '&', nxt, ('lit', '%s 100%', '"%s 100%"'))
        raise ValueError(style)
    styles = ['plus', 'if', 'if-cond', 'not', 'and', 'or', 'sum', 'range',
              'neg', 'percent', 'percent-text']
    stop_growing = set()
    for length in (5, 10, 15, 20, 25, 30, 40, 50, 60):
        depths = sorted({1, 2, length // 2, length - 1, length}
                        | (set(range(1, length + 1)) if thorough and
                           length <= 20 else set()))
        for k in depths:
            for poison in ('NOSUCHFUNCTION', 'BOOM', 'CYCLE'):
                for style in styles:
                    if (poison, style) in stop_growing:
                        continue
                    if not mine():
                        continue
                    if style != 'plus' and poison != 'CYCLE' and \
                            k not in (2, length // 2, length) and \
                            not thorough:
                        continue
                    cells = {(S, 2, 1): 1}               # B1: the switch
                    for i in range(1, k):
                        cells[(S, 1, i)] = ('f', link(style, R(1, i + 1)))
                    if poison == 'CYCLE':
                        cells[(S, 1, k)] = ('f', link(style, R(1, max(
                            1, k - 1))))
                    else:
                        cells[(S, 1, k)] = ('f', ('call', poison,
                                                  [R(2, 1)]))
                    wb, model = C.build(cells, {}, 'dict')
                    got, entries, nesting, msg_len, budget = C.evaluate(
                        model, (S, 1, 1), len(cells))
                    ev = C.last_evaluator
                    cls = classify_outcome(got)
                    ctx.event('failure_cases')
                    ctx.case(('failure', length, k, poison, style, cls))
                    bound = 400 * (k + 2) ** 2
                    bad = []
                    expected = 'cycle-report' if poison == 'CYCLE' else \
                        'other-exception'
                    if cls != expected:
                        bad.append(f'outcome {cls}: {str(got)[:160]}')
                    if msg_len > bound:
                        bad.append(f'failure text of {msg_len} characters '
                                   f'for a chain of {k} (bound {bound})')
                        if msg_len > 1_000_000:
                            stop_growing.add((poison, style))
                    # the same evaluator again: the same report, in
                    # particular no cycle report on an acyclic chain
                    got2, *_ = C.evaluate(model, (S, 1, 1), len(cells),
                                          ev=ev)
                    cls2 = classify_outcome(got2)
                    if cls2 != expected:
                        bad.append(f'second evaluation on the same evaluator:'
                                   f' {cls2}: {str(got2)[:160]}')
                    # a dependant / a precedent of the failing chain
                    if k > 2 and poison != 'CYCLE':
                        got3, *_ = C.evaluate(model, (S, 1, k - 1),
                                              len(cells), ev=ev)
                        if classify_outcome(got3) != expected:
                            bad.append(f'evaluating {build.addr((S, 1, k - 1))}'
                                       f' afterwards: {str(got3)[:160]}')
                    # repair the input: BOOM(0) passes, the chain has a value
                    if poison == 'BOOM':
                        ev.set_cell_value(build.addr((S, 2, 1)), 0)
                        wb.cells[(S, 2, 1)] = 0
                        got4, *_ = C.evaluate(model, (S, 1, 1), len(cells),
                                              ev=ev)
                        try:
                            want4 = ('value', ref.to_norm(wb.value(
                                (S, 1, 1))))
                        except ref.Undecided:
                            want4 = None
                        if want4 is not None and got4 != want4:
                            bad.append(f'after repairing the input: '
                                       f'{str(got4)[:160]}, reference '
                                       f'{want4}')
                    if bad:
                        ctx.fail(f'{poison} at depth {k} of a chain linked '
                                 f'by "{style}": ' + '; '.join(bad),
                                 {'depth': k, 'poison': poison,
                                  'link': style,
                                  'cells': build.dict_of(wb) if k < 12
                                  else 'chain',
                                  'message_chars': msg_len,
                                  'entries': entries,
                                  'outcome': str(got)[:300]},
                                 monitor='failure-report',
                                 group=f'failure:{poison[:4]}:{style}:'
                                       + ('size' if msg_len > bound
                                          else bad[0][:12]))

    # ---- random digraphs -------------------------------------------------------
    count = (30000 if thorough else 400) // n
    for _ in range(count):
        ncell = rng.randint(2, 9)
        cells = {}
        for i in range(1, ncell + 1):
            if rng.random() < 0.2:
                cells[(S, 1, i)] = rng.randint(1, 9)
                continue
            k = rng.randint(1, 3)
            targets = [rng.randint(1, ncell) for _ in range(k)]
            parts = []
            for t in targets:
                if rng.random() < 0.25 and t < ncell:
                    parts.append(('call', 'SUM', [('rng', None, 1, t, 1,
                                                   min(ncell, t + 1),
                                                   (False,) * 4)]))
                else:
                    parts.append(R(1, t))
            cells[(S, 1, i)] = ('f', plus(*parts, ONE))
        wb, model = C.build(cells, {}, 'dict')
        start = (S, 1, rng.randint(1, ncell))
        try:
            wb.value(start)
            cyclic = False
        except ref.RefCycle:
            cyclic = True
        except ref.Undecided:
            continue
        desc = 'random digraph ' + str(build.dict_of(wb))
        if cyclic:
            judge_cyclic(desc, ('random-cyclic', ncell), wb, model, start,
                         ncell)
        else:
            judge_acyclic(desc, ('random-acyclic', ncell), wb, model, start,
                          ncell)
