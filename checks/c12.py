"""C12 — a persisted model restores to an equivalent model.

Events: deep snapshot (address -> value class + payload, formula text; formulae
keys; name targets; range matrices) of the original at the persist point and of
the restored model; magic bytes of the file; evaluation of every cell of both.
Oracle: snapshots equal; after build_code every cell evaluates to the same value
in both; .gz/.gzip (any case) files are gzip, all others plain JSON.
"""
import datetime
import copy
import os

from vlib import bootstrap, build, gen, monitors, ref, subject

PROPERTY = 'C12'
RULE = ('generated models (ints, huge/tiny/negative floats, non-ASCII and '
        'delimiter-laden text, booleans, dates (xlsx path), error results, '
        'formulas over cells and ranges, names for cells and ranges (xlsx '
        'path), 1-2 sheets) x persist point in {compiled without code, '
        'compiled, after evaluating every cell, after overwriting inputs with '
        'natives and with Excel-type objects, after evaluating again; half '
        'of the models go through all points as ONE object} x extension in {.json, .gz, '
        '.gzip, .GZ, .JSON, none}; some models hold a formula flagged '
        'evaluate=False over a stored value; the loading Model is fresh or has '
        'loaded another file before.  non-trivial = round trip taken after '
        'evaluation or overwrite, or containing a range/name/date/error; '
        'distinct by (model, persist point, extension)')
ASSUMPTIONS = [
    'equivalence is judged on what the statement names: cells (address, '
    'value, formula text), formulae, defined names, ranges, and evaluation',
]
FLOORS = {'round_trips': 150, 'point_uncompiled': 10, 'point_compiled': 10,
          'point_evaluated': 10, 'point_overwritten': 10, 'point_reevaluated': 5, 'gzip_files': 20,
          'plain_files': 20, 'evaluations_compared': 500,
          'reused_loader': 20, 'frozen_formula_models': 10,
          'overwritten_files': 50, 'loaded_twice': 20,
          'names_compared_after_evaluation': 50,
          'fresh_process_loads': 8,
          'evaluators_attached_before_loading': 15,
          'constructed_without_build_code': 20,
          'emptied_inputs_persisted': 5}
ANCHOR_FUNCS = {'xlcalculator/model.py': ['Model.persist_to_json_file',
                                          'Model.construct_from_json_file',
                                          'Model.build_code']}
TIMEOUT = {'quick': 600, 'thorough': 3000}

EXTS = ['.json', '.gz', '.gzip', '.GZ', '.JSON', '']
TEXTS = ['abc', 'häßlich ж 漢字', 'a"b\'c', '{[()]}:;,!#%', ' lead', 'x' * 300,
         'line\nbreak', 'tab\tq', '\\back', 'py/object', '1', 'TRUE']
NUMS = [0, 1, -1, 7, 2 ** 53, -2 ** 40, 0.1, -0.5, 1e-300, 1.7976931348623157e308,
        5e-324, 123456789.123456789, 1e21]


def shards(tier):
    return 16


def nan_safe(n):
    """NaN is not equal to itself: compare it by name"""
    if n[0] == 'num' and n[1] != n[1]:
        return ('num', 'nan')
    return n


def snapshot(model):
    cells = {}
    for a, c in model.cells.items():
        cells[a] = (getattr(c, 'address', '?'),
                    nan_safe(monitors.norm(c.value)),
                    c.formula.formula if getattr(c, 'formula', None) is not None
                    else None,
                    getattr(getattr(c, 'formula', None), 'evaluate', True))
    names = {}
    for n, d in model.defined_names.items():
        if hasattr(d, 'cells') and isinstance(d.cells, list):
            names[n] = ('range', [list(r) for r in d.cells])
        else:
            names[n] = ('cell', getattr(d, 'address', repr(type(d))))
    ranges = {a: [list(r) for r in r_.cells] if hasattr(r_, 'cells')
              else repr(type(r_)) for a, r_ in model.ranges.items()}
    return {'cells': cells, 'formulae': sorted(
        (k, getattr(f, 'formula', repr(f))) for k, f in
        model.formulae.items()),
            'names': names, 'ranges': ranges}


def diff(a, b):
    out = []
    for part in ('cells', 'names', 'ranges'):
        for k in sorted(set(a[part]) | set(b[part])):
            if a[part].get(k, '<absent>') != b[part].get(k, '<absent>'):
                out.append(f'{part}[{k}]: {a[part].get(k, "<absent>")!r} -> '
                           f'{b[part].get(k, "<absent>")!r}')
    if a['formulae'] != b['formulae']:
        out.append(f'formulae keys {a["formulae"]} -> {b["formulae"]}')
    return out


def run(ctx):
    from xlcalculator import Evaluator, Model
    from xlcalculator.xlfunctions import func_xltypes as T
    rng = ctx.rng
    thorough = ctx.tier == 'thorough'
    out = os.path.join(bootstrap.VERIF, 'out', 'c12')
    os.makedirs(out, exist_ok=True)
    n_models = (2500 if thorough else 96) // ctx.nshards
    loader = None
    kept_for_fresh = []
    for mi in range(n_models):
        sheets = ('Sheet1',) if rng.random() < 0.6 else ('Sheet1', 'Q1 2020')
        use_xlsx = rng.random() < 0.5
        m = gen.gen_model(rng, n_inputs=rng.randint(2, 8),
                          n_formulas=rng.randint(2, 8), sheets=sheets,
                          values=NUMS if rng.random() < 0.5 else None)
        cells = dict(m.cells)
        s0 = sheets[0]
        # text / boolean / error / date content outside the numeric block
        cells[(s0, 8, 1)] = rng.choice(TEXTS)
        cells[(s0, 8, 2)] = rng.choice([True, False])
        cells[(s0, 8, 3)] = ('f', ('bin', '/', ('lit', 1, '1'),
                                   ('lit', 0, '0')))
        cells[(s0, 8, 4)] = ('f', ('bin', '&', ('ref', None, 8, 1, False,
                                                False), ('lit', 'z', '"z"')))
        cells[(s0, 8, 5)] = ('f', ('call', 'ISERROR', [
            ('ref', None, 8, 3, False, False)]))
        # every kind of error value as a computed (then stored) result
        cells[(s0, 8, 6)] = ('f', ('call', 'NA', []))
        for j_, code_ in enumerate(('#REF!', '#NAME?', '#NUM!', '#NULL!',
                                    '#VALUE!', '#N/A')):
            cells[(s0, 9, 1 + j_)] = ('f', ('bin', '+', ('lit', ref.Err(
                code_), code_), ('lit', 0, '0')))
        cells[(s0, 8, 7)] = ('f', ('call', 'ISERROR', [
            ('ref', None, 8, 6, False, False)]))
        names = {}
        if use_xlsx:
            k = rng.choice(m.inputs)
            names['NmCell'] = ('ref', k[0], k[1], k[2], True, True)
            rows = max(r for (s, c, r) in m.inputs if s == s0)
            names['NmRange'] = ('rng', s0, 1, 1, 2, rows, (True,) * 4)
            fk = rng.choice(m.formulas)
            names['NmFormula'] = ('ref', fk[0], fk[1], fk[2], True, True)
            # formulas that USE the names
            cells[(s0, 10, 1)] = ('f', ('bin', '+', ('call', 'SUM', [
                ('name', 'NmRange')]), ('name', 'NmCell')))
            cells[(s0, 10, 2)] = ('f', ('bin', '*', ('name', 'NmFormula'),
                                        ('lit', 2, '2')))
        wb = ref.Workbook(cells, names)
        xpath = os.path.join(out, f's{ctx.shard}.xlsx')
        same_object = rng.random() < 0.5     # one model through all points
        model = None
        frozen_key = rng.choice(m.formulas) if rng.random() < 0.4 else None
        for point in ('uncompiled', 'compiled', 'evaluated', 'overwritten',
                      'reevaluated'):
            ext = rng.choice(EXTS)
            if point == 'reevaluated' and not same_object:
                continue
            if same_object and model is not None and point != 'uncompiled':
                try:
                    if point == 'compiled':
                        model.build_code()
                    reuse = True
                except Exception as e:  # noqa
                    reuse = False
            else:
                reuse = False
            try:
              if reuse:
                pass
              else:
                  if use_xlsx:
                      from xlcalculator import ModelCompiler
                      build.write_xlsx(wb, xpath, list(sheets))
                      # a date constant (style 1 = date format)
                      model = ModelCompiler().read_and_parse_archive(
                          xpath, build_code=(point != 'uncompiled'))
                      os.remove(xpath)
                  else:
                      from xlcalculator import ModelCompiler
                      model = ModelCompiler().read_and_parse_dict(
                          build.dict_of(wb), default_sheet=s0,
                          build_code=(point != 'uncompiled'))
            except Exception as e:  # noqa
                ctx.fail(f'building the model raised {e!r}',
                         {'cells': build.dict_of(wb)}, monitor='construction',
                         group='build')
                break
            if not reuse and frozen_key is not None:
                # a formula kept for reference only: the cell answers its
                # stored value (XLFormula.evaluate is False)
                fa = build.addr(frozen_key)
                fcell = model.cells.get(fa)
                if fcell is not None and hasattr(fcell.formula, 'evaluate'):
                    fcell.formula.evaluate = False
                    fcell.value = 4242
                    ctx.event('frozen_formula_models')
            ev = Evaluator(model)
            if point in ('evaluated', 'overwritten', 'reevaluated'):
                for a in list(model.cells):
                    try:
                        ev.evaluate(a)
                    except Exception:  # noqa
                        pass
            if point == 'overwritten':
                for k in m.inputs[:4]:
                    v = rng.choice(NUMS + TEXTS[:3] + [True, '', None, 0,
                                                       False])
                    if v in ('', None) and not isinstance(v, bool):
                        ctx.event('emptied_inputs_persisted')
                    if rng.random() < 0.5 and v is not None:
                        v = T.ExcelType.cast_from_native(v)
                    ev.set_cell_value(build.addr(k), v)
                if rng.random() < 0.5:
                    ev.set_cell_value(build.addr(m.inputs[0]),
                                      datetime.datetime(
                                          2021, 3, 4, 5, 6, 7, rng.choice(
                                              [0, 678901, 1, 999999])))
            ctx.event('point_' + point)
            before = snapshot(model)
            # one path per shard and extension: a file written earlier (by a
            # bigger or smaller model) is overwritten
            fname = os.path.join(out, f's{ctx.shard}{ext}')
            if os.path.exists(fname):
                ctx.event('overwritten_files')
            ctx.event('round_trips')
            try:
                if rng.random() < 0.3:
                    import pathlib
                    model.persist_to_json_file(pathlib.Path(fname))
                    ctx.event('pathlib_paths')
                else:
                    model.persist_to_json_file(fname)
                with open(fname, 'rb') as fp:
                    magic = fp.read(2)
                if rng.random() < 0.3:
                    # somebody loads the file and works with that model before
                    # the model under observation is constructed from it
                    other = Model()
                    other.construct_from_json_file(fname, build_code=True)
                    for a_, c_ in list(other.cells.items()):
                        if c_.formula is None:
                            other.set_cell_value(a_, 987654)
                    ctx.event('loaded_twice')
                # the loading Model is a fresh one, or one that has already
                # loaded another file before
                if loader is not None and rng.random() < 0.4:
                    restored = loader
                    ctx.event('reused_loader')
                else:
                    restored = Model()
                restored.construct_from_json_file(fname, build_code=True)
                loader = restored
            except Exception as e:  # noqa
                ctx.fail(f'persist/restore at point {point!r} with extension '
                         f'{ext!r} raised {type(e).__name__}: {str(e)[:200]}',
                         {'cells': build.dict_of(wb), 'point': point,
                          'ext': ext}, monitor='round-trip-raises',
                         group=f'raises:{point}:{type(e).__name__}')
                continue
            want_gzip = ext.lower() in ('.gz', '.gzip')
            ctx.event('gzip_files' if want_gzip else 'plain_files')
            is_gzip = magic == b'\x1f\x8b'
            if is_gzip != want_gzip:
                ctx.fail(f'file with extension {ext!r} starts with {magic!r}: '
                         f'{"gzip" if is_gzip else "not gzip"}, expected '
                         f'{"gzip" if want_gzip else "plain JSON"}',
                         {'ext': ext, 'magic': repr(magic)},
                         monitor='file-format', group='format:' + ext)
            after = snapshot(restored)
            d = diff(before, after)
            nt = (mi, ctx.shard, point, ext)
            ctx.case(nt if (point in ('evaluated', 'overwritten') or names)
                     else None)
            if d:
                ctx.fail(f'restored model differs (point {point!r}, '
                         f'extension {ext!r}): {d[:4]}',
                         {'cells': build.dict_of(wb), 'point': point,
                          'ext': ext, 'differences': d[:20]},
                         monitor='snapshot-equal',
                         group=f'snapshot:{point}:{d[0].split("[")[0]}')
                continue
            # after compilation every cell evaluates to the same value
            if point == 'uncompiled':
                try:
                    model.build_code()
                except Exception as e:  # noqa
                    ctx.fail(f'build_code of the original raised {e!r}',
                             {'cells': build.dict_of(wb)},
                             monitor='construction', group='build_code')
                    continue
            ev_o, ev_r = Evaluator(model), Evaluator(restored)
            # the file constructed WITHOUT asking for build_code: a model that
            # was compiled when it was persisted comes back ready to evaluate
            ev_lazy = None
            if point != 'uncompiled' and rng.random() < 0.5:
                try:
                    lazy = Model()
                    lazy.construct_from_json_file(fname)
                    ev_lazy = Evaluator(lazy)
                    ctx.event('constructed_without_build_code')
                except Exception as e:  # noqa
                    ctx.fail(f'construct_from_json_file(file) without '
                             f'build_code raised {e!r} (point {point!r})',
                             {'cells': build.dict_of(wb), 'point': point},
                             monitor='round-trip-raises',
                             group='raises:lazy-construct')
            # an Evaluator that was attached to its (still empty, or
            # otherwise filled) Model BEFORE the file was constructed into it
            ev_early = None
            if rng.random() < 0.4:
                try:
                    early = Model() if rng.random() < 0.5 else \
                        copy.deepcopy(model)
                    ev_early = Evaluator(early)
                    for a_ in list(early.cells)[:3]:
                        subject.outcome_of(lambda: ev_early.evaluate(a_))
                        if early.cells[a_].formula is None:
                            ev_early.set_cell_value(a_, 31337)
                    early.construct_from_json_file(fname, build_code=True)
                    ctx.event('evaluators_attached_before_loading')
                except Exception as e:  # noqa
                    ctx.fail(f'constructing the file into a model that has an '
                             f'Evaluator raised {e!r}',
                             {'cells': build.dict_of(wb), 'point': point},
                             monitor='round-trip-raises',
                             group='raises:early-evaluator')
                    ev_early = None
            bad = []
            for a in sorted(model.cells):
                go = subject.outcome_of(lambda: ev_o.evaluate(a))
                gr = subject.outcome_of(lambda: ev_r.evaluate(a))
                ctx.event('evaluations_compared')
                if go[0] == 'value' and gr[0] == 'value':
                    go, gr = ('value', nan_safe(go[1])), \
                        ('value', nan_safe(gr[1]))
                if go != gr:
                    bad.append((a, go, gr))
                if ev_lazy is not None:
                    gz = subject.outcome_of(lambda: ev_lazy.evaluate(a))
                    if gz[0] == 'value':
                        gz = ('value', nan_safe(gz[1]))
                    if gz != go:
                        bad.append((a, go, ('constructed without build_code',
                                            gz)))
                if ev_early is not None:
                    ge = subject.outcome_of(lambda: ev_early.evaluate(a))
                    if ge[0] == 'value':
                        ge = ('value', nan_safe(ge[1]))
                    if ge != go:
                        bad.append((a, go, ('evaluator attached before the '
                                            'load', ge)))
            if not bad and len(kept_for_fresh) < (6 if thorough else 2) and \
                    point in ('evaluated', 'overwritten', 'reevaluated'):
                # the same file read by ANOTHER process that has done nothing
                # else (see the end of run)
                import shutil
                keep = os.path.join(out, f'fresh{ctx.shard}_'
                                    f'{len(kept_for_fresh)}{ext}')
                shutil.copyfile(fname, keep)
                kept_for_fresh.append((keep, point, build.dict_of(wb), {
                    a: subject.outcome_of(lambda: ev_o.evaluate(a))
                    for a in sorted(model.cells)}))
            if bad:
                ctx.fail(f'after restore (point {point!r}) cells evaluate '
                         f'differently: {bad[:3]}',
                         {'cells': build.dict_of(wb), 'point': point,
                          'differences': bad[:10]}, monitor='same-evaluation',
                         group=f'evaluation:{point}')
            # defined names after both models have been evaluated: a name
            # bound to a cell shows that cell's current value in both
            stale = []
            for n_, d_ in model.defined_names.items():
                dr = restored.defined_names.get(n_)
                if hasattr(d_, 'value') and hasattr(dr, 'value') and \
                        hasattr(d_, 'address'):
                    vo = nan_safe(monitors.norm(d_.value))
                    vr = nan_safe(monitors.norm(dr.value))
                    ctx.event('names_compared_after_evaluation')
                    if vo != vr:
                        stale.append((n_, d_.address, vo, vr))
            if stale:
                ctx.fail(f'after evaluating both models (point {point!r}) the '
                         f'defined names show different values: (name, cell, '
                         f'original, restored) = {stale[:3]}',
                         {'cells': build.dict_of(wb), 'point': point,
                          'differences': stale[:10]},
                         monitor='same-evaluation', group='names-after-eval')
            if ctx.want_sample() and rng.random() < 0.05:
                ctx.sample({'cells': build.dict_of(wb), 'point': point,
                            'ext': ext, 'gzip': is_gzip,
                            'cells_compared': len(before['cells'])})
    # ---- a process that has done nothing but start: it constructs the model
    # from the file and evaluates every cell; the outcomes are those of the
    # original model in this process ------------------------------------------
    if kept_for_fresh:
        import json
        import subprocess
        import sys
        script = (
            'import json, sys\n'
            'from vlib import bootstrap, subject\n'
            'bootstrap.import_subject()\n'
            'from xlcalculator import Model, Evaluator\n'
            'out = []\n'
            'for path in sys.argv[1:]:\n'
            '    try:\n'
            '        m = Model()\n'
            '        m.construct_from_json_file(path, build_code=True)\n'
            '        ev = Evaluator(m)\n'
            '        out.append({a: subject.outcome_of(lambda: ev.evaluate(a))'
            ' for a in sorted(m.cells)})\n'
            '    except BaseException as e:\n'
            '        out.append({"<load>": ["raised", repr(e)[:300]]})\n'
            'print("FRESH" + json.dumps(out))\n')
        try:
            r = subprocess.run(
                [sys.executable, '-B', '-c', script]
                + [k[0] for k in kept_for_fresh],
                env=bootstrap.child_env(ctx.seed), capture_output=True,
                text=True, timeout=300)
            line = [ln for ln in r.stdout.splitlines()
                    if ln.startswith('FRESH')]
            fresh = json.loads(line[-1][5:]) if line else None
        except Exception as e:  # noqa
            fresh = None
            r = None
        if fresh is None:
            ctx.inconclusive_because(
                'the fresh-process loader produced no result: '
                + (r.stderr[-300:] if r is not None else 'not started'))
        else:
            def canon(o):
                return json.loads(json.dumps(o))
            for (keep, point, wbd, expect), got in zip(kept_for_fresh, fresh):
                ctx.event('fresh_process_loads')
                ctx.case(('fresh-process', point, os.path.splitext(keep)[1]))
                bad = []
                for a, go in expect.items():
                    gf = got.get(a, got.get('<load>'))
                    ctx.event('evaluations_compared')
                    if go[0] == 'value':
                        go = ('value', nan_safe(go[1]))
                    if gf and gf[0] == 'value' and gf[1][0] == 'num' and \
                            gf[1][1] != gf[1][1]:
                        gf = ['value', ['num', 'nan']]
                    if canon(go) != gf:
                        bad.append((a, go, gf))
                if bad:
                    ctx.fail(f'model persisted at point {point!r}, '
                             f'constructed and evaluated by a process that '
                             f'did nothing else: (cell, original, fresh '
                             f'process) = {bad[:3]}',
                             {'cells': wbd, 'point': point,
                              'differences': bad[:10]},
                             monitor='same-evaluation', group='fresh-process')
        for k in kept_for_fresh:
            try:
                os.remove(k[0])
            except OSError:
                pass
    # ---- a long formula (hundreds of operands, below Excel's 8192 characters) ----
    if ctx.shard in (0, 1) or thorough:
        for n_terms in (60, 120, 250, 400):
            cells = {f'Sheet1!A{i}': i for i in range(1, n_terms + 1)}
            cells['Sheet1!B1'] = '=' + '+'.join(
                f'A{i}' for i in range(1, n_terms + 1))
            cells['Sheet1!B2'] = '=B1*2'
            fname = os.path.join(out, f'long{ctx.shard}.json')
            ctx.event('round_trips')
            ctx.event('long_formula_round_trips')
            ctx.case(('long-formula', n_terms))
            try:
                model = subject.compile_dict(cells)
                model.persist_to_json_file(fname)
                restored = Model()
                restored.construct_from_json_file(fname, build_code=True)
                lazy = Model()
                lazy.construct_from_json_file(fname)
                # ... and the same for a sub-model extracted from it
                from xlcalculator import ModelCompiler as _MC
                sub = _MC.extract(model, ['Sheet1!B2'])
                sub.persist_to_json_file(fname)
                sub_r = Model()
                sub_r.construct_from_json_file(fname, build_code=True)
                gs = subject.outcome_of(
                    lambda: Evaluator(sub_r).evaluate('Sheet1!B2'))
                go = subject.outcome_of(
                    lambda: Evaluator(model).evaluate('Sheet1!B2'))
                if gs != go:
                    ctx.fail(f'sub-model extracted from a model with a formula '
                             f'of {n_terms} operands, persisted and restored: '
                             f'-> {str(gs)[:120]}, original -> {str(go)[:120]}',
                             {'operands': n_terms}, monitor='same-evaluation',
                             group='long-formula-extract')
                gr = subject.outcome_of(
                    lambda: Evaluator(restored).evaluate('Sheet1!B2'))
                gl = subject.outcome_of(
                    lambda: Evaluator(lazy).evaluate('Sheet1!B2'))
                if go != gr or gl != go or go != ('value', ('num', float(
                        n_terms * (n_terms + 1)))):
                    ctx.fail(f'model with a formula of {n_terms} operands: '
                             f'original -> {str(go)[:120]}, restored -> '
                             f'{str(gr)[:120]}, restored without build_code '
                             f'-> {str(gl)[:120]}', {'operands': n_terms},
                             monitor='same-evaluation', group='long-formula')
            except RecursionError:
                # (was KF-C12-05: the syntax trees were persisted, and encoding
                # them recursed as deep as the formula is long)
                ctx.fail(f'persist / restore of a compiled model holding a '
                         f'formula of {n_terms} operands raised '
                         f'RecursionError', {'operands': n_terms},
                         monitor='round-trip-raises',
                         group=f'long-formula-recursion:{n_terms}')
            finally:
                try:
                    os.remove(fname)
                except OSError:
                    pass
    for ext in EXTS:
        try:
            os.remove(os.path.join(out, f's{ctx.shard}{ext}'))
        except OSError:
            pass
