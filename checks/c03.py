"""C03 — references denote exactly the addressed cells on the right sheet.

Events: Evaluator.evaluate of probe cells (decides); dereference tracer
(diagnostic: which (sheet, address) each probe requested); direct calls of
utils.resolve_ranges / XLRange / col2num / num2col.
Oracle: reference spreadsheet interpreter over the generator's own cell table;
probe values identify what was read (range members hold distinct powers of 3
times a per-sheet prime, letters for order, every sheet differs at the same
coordinates).
"""
import os

from vlib import bootstrap, build, monitors, ref, subject

PROPERTY = 'C03'
RULE = ('generated workbooks with 2-4 sheets (names with blanks/quotes), built '
        'through the raw-XML xlsx path and through read_and_parse_dict; probes '
        '=REF in every spelling ($ variants, qualified/unqualified/quoted), '
        '=SUM/COUNTA/CONCAT(rectangle) 1x1..6x5 dense and sparse incl. >100 '
        'consecutive blanks in a row and in a column, cross-sheet ping-pong '
        'chains, references that follow a cross-sheet reference, defined names '
        'for cells and ranges (in formulas and passed to evaluate), empty '
        'cells inside and outside ranges; the model is the compiled one, a '
        'deep copy, restored from JSON or extracted with everything in focus; '
        'a sample of the probes is evaluated again after block cells were '
        're-assigned.  non-trivial = the reference value '
        'changes when the probe is resolved on another sheet, or the '
        'rectangle has >= 2 cells; distinct by (probe kind, spelling, shape, '
        'construction path, value)')
ASSUMPTIONS = [
    'reference interpreter vlib/ref.py written from the statement',
    'the dereference trace is diagnostic only (how a range is walked is not '
    'part of the property)',
]
FLOORS = {'probes': 2000, 'name_probes': 20,
          'probes_after_reassignment': 500, 'derived_models': 5, 'narrow_extracts': 2,
          'switched_chain_evaluations': 100,
          'whole_row_column_evaluations': 40,
          'workbooks_with_sheet_local_twin_names': 5,
          'reassignments_xlcell': 10,
          'failing_evaluations_before_reassignment': 20}
ANCHOR_FUNCS = {
    'xlcalculator/ast_nodes.py': ['RangeNode.eval', 'RangeNode.full_address',
                                  'EvalContext.set_sheet'],
    'xlcalculator/utils.py': ['resolve_ranges', 'resolve_address'],
    'xlcalculator/evaluator.py': ['Evaluator.evaluate',
                                  'Evaluator.resolve_names'],
    'xlcalculator/model.py': ['ModelCompiler.build_ranges',
                              'ModelCompiler.read_and_parse_dict',
                              'ModelCompiler.build_defined_names'],
}
TIMEOUT = {'quick': 600, 'thorough': 3000}

SHEETS = ['Sheet1', 'Data', 'My Sheet', "It's", 'Q1 2020', '2024', '1st Qtr',
          'R2', 'A1']
PRIMES = [1, 5, 7, 11, 13, 17, 19, 23, 29]
NCOL, NROW = 6, 5                     # the power-of-3 block A1:F5
LET_ROW0 = 10                         # letters block A10:D12
PROBE_COL0 = 12                       # probes from column L


def shards(tier):
    return 16


def gen_workbook(rng, sheets):
    cells = {}
    for si, s in enumerate(sheets):
        p = PRIMES[SHEETS.index(s)]
        for r in range(1, NROW + 1):
            for c in range(1, NCOL + 1):
                if rng.random() < 0.75:
                    cells[(s, c, r)] = p * 3 ** ((r - 1) * NCOL + (c - 1))
        # constants that are "nothing" for Python and values for a sheet
        filled = [k for k in cells if k[0] == s]
        for v0 in (0, 0.0, False):
            if filled:
                cells[rng.choice(filled)] = v0
        letters = 'abcdefghijkl' if si % 2 == 0 else 'mnopqrstuvwx'
        k = 0
        for r in range(LET_ROW0, LET_ROW0 + 3):
            for c in range(1, 5):
                if rng.random() < 0.8:
                    cells[(s, c, r)] = letters[k] + str(si)
                k += 1
    return cells


class Probe:
    __slots__ = ('key', 'ast', 'kind', 'spelling', 'tags', 'shape', 'nt')

    def __init__(self, key, ast, kind, spelling='', tags=(), shape=None):
        self.key, self.ast, self.kind = key, ast, kind
        self.spelling, self.tags, self.shape = spelling, set(tags), shape


def spellings(rng, home, target_sheet, col, row):
    """every spelling of one target cell as seen from `home`"""
    out = []
    quals = [target_sheet] + ([None] if target_sheet == home else [])
    for q in quals:
        for ac in (False, True):
            for ar in (False, True):
                sp = ('q' if q else 'u') + ('$c' if ac else '') + \
                    ('$r' if ar else '')
                out.append((sp, ('ref', q, col, row, ac, ar)))
    return out


def make_probes(rng, sheets, cells, with_names):
    probes = []
    names = {}
    next_row = {s: 1 for s in sheets}

    def place(sheet, ast, kind, spelling='', tags=(), shape=None, col=None):
        col = col or PROBE_COL0
        key = (sheet, col, next_row[sheet])
        next_row[sheet] += 1
        probes.append(Probe(key, ast, kind, spelling, tags, shape))
        return key

    # 1. single references, every spelling
    for _ in range(6):
        home = rng.choice(sheets)
        tgt = rng.choice(sheets)
        c, r = rng.randint(1, NCOL), rng.randint(1, NROW)
        for sp, ast in spellings(rng, home, tgt, c, r):
            tags = {'abs_single_ref'} if '$' in sp else set()
            place(home, ast, 'single', sp, tags)
    # 2. rectangles: SUM / COUNTA
    for _ in range(10):
        home = rng.choice(sheets)
        tgt = rng.choice(sheets)
        c1, r1 = rng.randint(1, NCOL), rng.randint(1, NROW)
        c2, r2 = rng.randint(c1, NCOL), rng.randint(r1, NROW)
        q = tgt if (tgt != home or rng.random() < 0.5) else None
        fl = tuple(rng.random() < 0.25 for _ in range(4))
        rg = ('rng', q, c1, r1, c2, r2, fl)
        shape = (c2 - c1 + 1, r2 - r1 + 1)
        for f in ('SUM', 'COUNTA'):
            place(home, ('call', f, [rg]), 'rect-' + f,
                  ('q' if q else 'u') + ('$' if any(fl) else ''), (), shape)
    # 3. order: CONCAT over the letter block
    for _ in range(4):
        home = rng.choice(sheets)
        tgt = rng.choice(sheets)
        c1, r1 = rng.randint(1, 4), rng.randint(LET_ROW0, LET_ROW0 + 2)
        c2, r2 = rng.randint(c1, 4), rng.randint(r1, LET_ROW0 + 2)
        q = tgt if tgt != home else None
        rg = ('rng', q, c1, r1, c2, r2, (False,) * 4)
        place(home, ('call', 'CONCAT', [rg]), 'rect-CONCAT',
              'q' if q else 'u', (), (c2 - c1 + 1, r2 - r1 + 1))
    # 4. cross-sheet ping-pong chains (unqualified references in between)
    for _ in range(3):
        length = rng.randint(2, 6)
        chain_sheets = [rng.choice(sheets) for _ in range(length)]
        prev = None
        for i in reversed(range(length)):
            s = chain_sheets[i]
            a = ('ref', None, rng.randint(1, NCOL), rng.randint(1, NROW),
                 False, False)
            if prev is None:
                ast = ('bin', '+', a, ('lit', 1, '1'))
            else:
                q = prev[0] if (prev[0] != s or rng.random() < 0.3) else None
                link = ('ref', q, prev[1], prev[2], False, False)
                # the unqualified reference comes AFTER the cross-sheet one
                ast = ('bin', '+', link, a) if rng.random() < 0.7 else \
                    ('bin', '+', a, link)
            prev = place(s, ast, 'chain', f'len{length}', (), None,
                         col=PROBE_COL0 + 1)
    # 5. references that follow a cross-sheet reference in one formula
    for _ in range(6):
        home = rng.choice(sheets)
        other = rng.choice([s for s in sheets if s != home] or sheets)
        a = ('ref', None, rng.randint(1, NCOL), rng.randint(1, NROW),
             False, False)
        b = ('ref', other, rng.randint(1, NCOL), rng.randint(1, NROW),
             False, False)
        rg = ('rng', other, 1, 1, 2, 2, (False,) * 4)
        lrg = ('rng', None, 2, 2, 3, 4, (False,) * 4)
        variants = [
            ('bin', '+', b, a),
            ('bin', '+', ('bin', '+', a, b), a),
            ('bin', '+', ('call', 'SUM', [rg]), a),
            ('bin', '+', ('call', 'SUM', [rg]), ('call', 'SUM', [lrg])),
            ('call', 'SUM', [b, lrg, a]),
        ]
        place(home, rng.choice(variants), 'after-cross-sheet', '', ())
    # 5b. the same rectangle spelt twice (with and without $) in ONE formula
    for _ in range(4):
        home = rng.choice(sheets)
        c1, r1 = rng.randint(1, NCOL - 1), rng.randint(1, NROW - 1)
        c2, r2 = rng.randint(c1, NCOL), rng.randint(r1, NROW)
        fl = rng.choice([(True, True, True, True), (True, False, True, False),
                         (False, True, False, True), (True, True, False,
                                                      False)])
        a = ('rng', None, c1, r1, c2, r2, fl)
        b = ('rng', None, c1, r1, c2, r2, (False,) * 4)
        first, second = (a, b) if rng.random() < 0.5 else (b, a)
        place(home, ('bin', '+', ('call', 'SUM', [first]),
                     ('call', 'SUM', [second])), 'two-spellings', 'SUM+SUM',
              (), (c2 - c1 + 1, r2 - r1 + 1))
    # 5c. the same formula text on two sheets (unqualified references)
    if len(sheets) >= 2:
        for _ in range(3):
            s1, s2 = rng.sample(sheets, 2)
            c, r = rng.randint(1, NCOL), rng.randint(1, NROW)
            twin = rng.choice([
                ('bin', '*', ('ref', None, c, r, False, False),
                 ('lit', 2, '2')),
                ('call', 'SUM', [('rng', None, 1, 1, 2, 2, (False,) * 4)]),
                ('bin', '+', ('ref', None, c, r, False, False),
                 ('call', 'COUNTA', [('rng', None, 1, 1, 3, 2,
                                      (False,) * 4)])),
            ])
            for sh_ in (s1, s2):
                place(sh_, twin, 'twin-text', '', (), None,
                      col=PROBE_COL0 + 2)
    # 6. empty cells
    for _ in range(3):
        home = rng.choice(sheets)
        empty = ('ref', None, 8, rng.randint(1, 30), False, False)   # col H
        place(home, ('bin', '+', empty, ('lit', 1, '1')), 'empty+1')
        place(home, ('call', 'ISBLANK', [empty]), 'empty-isblank')
        # an empty cell that is ALSO a member of some referenced range
        blanks = [(c, r) for r in range(1, NROW + 1)
                  for c in range(1, NCOL + 1) if (home, c, r) not in cells]
        if blanks:
            c, r = rng.choice(blanks)
            m = ('ref', None, c, r, False, False)
            place(home, ('call', 'SUM', [('rng', None, 1, 1, NCOL, NROW,
                                          (False,) * 4)]), 'rect-SUM', 'u',
                  (), (NCOL, NROW))
            place(home, ('bin', '+', m, ('lit', 1, '1')), 'empty-member+1',
                  '', {'blank_range_member_arith'})
            place(home, ('call', 'ISBLANK', [m]), 'empty-member-isblank',
                  '', {'blank_range_member_arith'})
    # 6b. a range whose members are formula cells of every result kind
    home = rng.choice(sheets)
    r0 = 40
    member_formulas = [
        ('call', 'COUNTA', [('rng', None, 1, 1, 3, 2, (False,) * 4)]),
        ('call', 'ISBLANK', [('ref', None, 8, 77, False, False)]),
        ('call', 'IF', [('lit', True, 'TRUE'), ('lit', 2, '2'),
                        ('lit', 3, '3')]),
        ('bin', '+', ('ref', None, 1, 1, False, False), ('lit', 1, '1')),
        ('call', 'SUM', [('rng', None, 1, 1, 2, 2, (False,) * 4)]),
        ('bin', '*', ('ref', None, 2, 1, False, False), ('lit', 2, '2')),
        ('call', 'CONCAT', [('lit', 'x', '"x"'), ('lit', 'y', '"y"')]),
    ]
    rng.shuffle(member_formulas)
    for i, m in enumerate(member_formulas[:rng.randint(2, 6)]):
        cells[(home, 10, r0 + i)] = ('f', m)          # column J
    rg = ('rng', None, 10, r0, 10, r0 + 6, (False,) * 4)
    place(home, ('call', 'COUNTA', [rg]), 'rect-of-formulas', 'COUNTA', (),
          (1, 7))
    place(home, ('call', 'SUM', [rg]), 'rect-of-formulas', 'SUM',
          {'bool_in_range'}, (1, 7))
    # the same block consumed from ANOTHER sheet: the members' unqualified
    # references still mean the members' own sheet
    for other in [x for x in sheets if x != home][:2]:
        qrg = ('rng', home, 10, r0, 10, r0 + 6, (False,) * 4)
        place(other, ('call', 'COUNTA', [qrg]), 'rect-of-formulas-xsheet',
              'COUNTA', (), (1, 7))
        place(other, ('call', 'SUM', [qrg]), 'rect-of-formulas-xsheet',
              'SUM', (), (1, 7))
        place(other, ('bin', '+', ('call', 'SUM', [qrg]),
                      ('ref', None, 1, 1, False, False)),
              'rect-of-formulas-xsheet', 'SUM+own', (), (1, 7))
    # 7. sparse: more than 100 consecutive blanks inside a row / a column
    home = rng.choice(sheets)
    gap = rng.randint(101, 300)
    row = 500
    cells[(home, 1, row)] = 17
    cells[(home, 1 + gap + 1, row)] = 1000
    cells[(home, 1 + gap + 2, row)] = 50000
    place(home, ('call', 'SUM', [('rng', None, 1, row, gap + 3, row,
                                  (False,) * 4)]), 'sparse-row', f'gap{gap}',
          {'blank_gap_gt_100_in_row'}, (gap + 3, 1))
    place(home, ('call', 'COUNTA', [('rng', None, 1, row, gap + 3, row,
                                     (False,) * 4)]), 'sparse-row',
          f'gap{gap}', {'blank_gap_gt_100_in_row'}, (gap + 3, 1))
    colx = 9
    cells[(home, colx, 30)] = 23
    cells[(home, colx, 30 + gap + 1)] = 4000
    cells[(home, colx, 30 + gap + 2)] = 90000
    place(home, ('call', 'SUM', [('rng', None, colx, 30, colx, 30 + gap + 1,
                                  (False,) * 4)]), 'sparse-col', f'gap{gap}',
          {'blank_gap_gt_100_in_col'}, (1, gap + 2))
    place(home, ('call', 'COUNTA', [('rng', None, colx, 30, colx,
                                     30 + gap + 2, (False,) * 4)]),
          'sparse-col', f'gap{gap}', {'blank_gap_gt_100_in_col'},
          (1, gap + 3))
    # 8. defined names (xlsx path)
    if with_names:
        for i in range(3):
            s = rng.choice(sheets)
            filled = [(c, r) for r in range(1, NROW + 1)
                      for c in range(1, NCOL + 1) if (s, c, r) in cells]
            if not filled:
                continue
            c, r = rng.choice(filled)
            nm = f'NmCell{i}'
            names[nm] = ('ref', s, c, r, True, True)
            home = rng.choice(sheets)
            tags = {'name_on_quoted_sheet'} if ref.quote_sheet(s) != s \
                else set()
            place(home, ('bin', '*', ('name', nm), ('lit', 2, '2')),
                  'name-cell', 'in-formula', tags)
        for i in range(2):
            s = rng.choice(sheets)
            c1, r1 = rng.randint(1, NCOL - 1), rng.randint(1, NROW - 1)
            nm = f'NmRange{i}'
            names[nm] = ('rng', s, c1, r1, c1 + 1, r1 + 1, (True,) * 4)
            home = rng.choice(sheets)
            tags = {'range_name_in_formula'}
            if ref.quote_sheet(s) != s:
                tags.add('name_on_quoted_sheet')
            place(home, ('call', 'SUM', [('name', nm)]), 'name-range',
                  'in-formula', tags, (2, 2))
    return probes, names


def quirk_truncate(rows):
    """quirk model of KF-C03-02: walking a range stops taking cells after more
    than 100 consecutive blanks (and stops altogether after more than 100
    rows that contributed nothing)"""
    empty_row = empty_col = 0
    out = []
    for row in rows:
        rc = []
        for v in row:
            if v is None or v == '':
                empty_col += 1
                if empty_col > 100:
                    break
            else:
                empty_col = 0
            rc.append(v)
        if not rc:
            empty_row += 1
            if empty_row > 100:
                break
        else:
            empty_row = 0
        out.append(rc)
    return out


def classify(p, got, want, path, wb=None):
    """known-finding attribution: feature on the probe AND the signature of
    that mechanism (quirk-model reproduction)"""
    t = p.tags
    if ({'blank_gap_gt_100_in_row', 'blank_gap_gt_100_in_col'} & t
            and got[0] == 'value' and wb is not None):
        rg = p.ast[2][0]
        try:
            full = wb.eval(rg, p.key[0])
            cut = quirk_truncate(full)
            flat = [v for row in cut for v in row]
            if p.ast[1] == 'SUM':
                q = ('num', float(sum(v for v in flat
                                      if isinstance(v, (int, float)))))
            else:
                q = ('num', float(sum(1 for v in flat if v is not None)))
            if got[1] == q:
                return 'KF-C03-02'
        except Exception:  # noqa
            pass
    return None


def _single_refs(ast, home):
    """keys of the cells an expression reads through single-cell references"""
    out = set()
    if not isinstance(ast, tuple):
        return out
    if ast and ast[0] == 'ref':
        out.add((ast[1] or home, ast[2], ast[3]))
        return out
    for x in ast[1:]:
        if isinstance(x, (tuple, list)):
            for y in (x if isinstance(x, list) else [x]):
                out |= _single_refs(y, home)
    return out


def run(ctx):
    rng = ctx.rng
    thorough = ctx.tier == 'thorough'
    tracer = monitors.DerefTracer().install()
    from xlcalculator import Evaluator
    outdir = os.path.join(bootstrap.VERIF, 'out', 'c03')
    os.makedirs(outdir, exist_ok=True)
    n_books = (1200 if thorough else 48) // ctx.nshards
    n_books = max(n_books, 2)
    for b in range(n_books):
        path_kind = 'xlsx' if b % 2 == 0 else 'dict'
        sheets = rng.sample(SHEETS, rng.randint(2, 4))
        if path_kind == 'dict':
            # the dict path cannot express the quote in a sheet name other
            # than literally; keep it (Sheet!A1 keys are plain text)
            pass
        cells = gen_workbook(rng, sheets)
        probes, names = make_probes(rng, sheets, cells, path_kind == 'xlsx')
        wb = ref.Workbook(cells, names)
        for p in probes:
            wb.cells[p.key] = ('f', p.ast)
        # formulas that FAIL after they have read cells of the blocks (an
        # unknown function as their last operand): evaluated, and caught,
        # before the cells are re-assigned
        failing = []
        read_by_failed = set()
        for si, s_ in enumerate(sheets[:2]):
            other = sheets[(si + 1) % len(sheets)]
            key = (s_, 40, 1)
            ast = ('bin', '+', ('call', 'SUM', [
                ('rng', other, 1, 1, NCOL, NROW, (False,) * 4)]),
                ('ref', None, 2, 2, False, False))
            # ... and formula cells (other probes), so that their results
            # have been computed as precedents of the failing evaluation
            for p in rng.sample(probes, min(len(probes), 10)):
                ast = ('bin', '+', ast, ('call', 'COUNTA', [
                    ('ref', p.key[0], p.key[1], p.key[2], False, False)]))
                # the single cells this precedent reads: some of them are
                # re-assigned below, after the failure
                read_by_failed.update(_single_refs(p.ast, p.key[0]))
            wb.cells[key] = ('f', ('bin', '+', ast, (
                'call', 'NOSUCHFUNCTION', [('lit', 1, '1')])))
            failing.append(key)
        # a chain that fails only while a switch is on: Y -> X ->
        # IF(switch=1, NOSUCHFUNCTION(1), cell on another sheet)
        sw_home, sw_other = sheets[0], sheets[-1]
        k_sw, k_x, k_y = (sw_home, 8, 90), (sw_home, 41, 1), (sw_home, 41, 2)
        wb.cells[k_sw] = 1
        cells[k_sw] = 1
        wb.cells[k_x] = ('f', ('call', 'IF', [
            ('bin', '=', ('ref', None, 8, 90, False, False), ('lit', 1, '1')),
            ('call', 'NOSUCHFUNCTION', [('lit', 1, '1')]),
            ('bin', '+', ('ref', sw_other, 2, 2, False, False),
             ('lit', 0, '0'))]))
        wb.cells[k_y] = ('f', ('bin', '+', ('ref', None, 41, 1, False, False),
                               ('call', 'SUM', [('rng', sw_other, 1, 1, 2, 2,
                                                 (False,) * 4)])))
        xl_sheets = list(sheets)
        if path_kind == 'xlsx' and names:
            # a scratch sheet with private names of the same spelling as the
            # workbook's (localSheetId), bound to its own cells: they are that
            # sheet's business and change nothing for the other sheets
            scratch_s = 'Scratch Pad'
            xl_sheets.append(scratch_s)
            wb.cells[(scratch_s, 3, 5)] = 987654
            wb.cells[(scratch_s, 2, 4)] = 111
            wb.cells[(scratch_s, 3, 4)] = 222
            wb.cells[(scratch_s, 2, 5)] = 333
            wb.local_names = [
                (nm, ('ref', scratch_s, 3, 5, True, True) if t[0] == 'ref'
                 else ('rng', scratch_s, 2, 4, 3, 5, (True,) * 4), scratch_s)
                for nm, t in names.items()]
            ctx.event('workbooks_with_sheet_local_twin_names')
        try:
            if path_kind == 'xlsx':
                model = build.model_from_xlsx(
                    wb, os.path.join(outdir, f's{ctx.shard}_{b}.xlsx'),
                    sheet_order=xl_sheets)
            else:
                model = build.model_from_dict(wb, default_sheet=sheets[0])
            prov = rng.choice(['compiled', 'compiled', 'extracted', 'json',
                               'deepcopy'])
            if (b + ctx.shard) % 6 == 5:
                prov = 'extracted-narrow'
            if prov == 'extracted-narrow':
                # a sub-model: only some probes in focus; what they read -
                # cells, rectangles, members that are formulas themselves and
                # THEIR precedents - has to come along
                from xlcalculator import ModelCompiler
                keep = [p for p in probes
                        if p.kind.startswith('rect-of-formulas')
                        or p.kind in ('chain', 'after-cross-sheet')]
                keep += rng.sample(probes, min(len(probes), 12))
                probes = list({id(p): p for p in keep}.values())
                failing = []
                model = ModelCompiler.extract(
                    model, focus=[build.addr(p.key) for p in probes])
                ctx.event('narrow_extracts')
            else:
                model = build.derive(model, prov, os.path.join(
                    outdir, f's{ctx.shard}.json'))
            if prov != 'compiled':
                ctx.event('derived_models')
            prov_note = '' if prov == 'compiled' else ', ' + prov + ' model'
        except Exception as e:  # noqa
            ctx.fail(f'building the workbook ({path_kind}) raised '
                     f'{type(e).__name__}: {str(e)[:200]}',
                     {'path': path_kind, 'cells': build.dict_of(wb)
                      if path_kind == 'dict' else 'xlsx'},
                     monitor='construction', group='build-' + path_kind)
            continue
        ev = Evaluator(model)

        def run_probes(plist, phase):
          for p in plist:
              a = build.addr(p.key)
              got = subject.outcome_of(lambda: ev.evaluate(a))
              try:
                  want = ('value', ref.to_norm(wb.value(p.key)))
              except ref.Undecided:
                  ctx.event('skipped_undecided')
                  continue
              # non-triviality: resolved on another sheet the value differs
              nt = None
              try:
                  others = [s for s in sheets if s != p.key[0]]
                  alt = wb.eval(p.ast, others[0]) if others else None
                  if (ref.to_norm(alt) != want[1]) or (
                          p.shape and p.shape[0] * p.shape[1] >= 2):
                      nt = (p.kind, p.spelling, p.shape, path_kind, want[1])
              except Exception:  # noqa
                  nt = (p.kind, p.spelling, p.shape, path_kind, want[1])
              ctx.case(nt)
              ctx.event('probes' if phase == 'first' else 'probes_after_reassignment')
              if p.kind.startswith('name'):
                  ctx.event('name_probes')
              if ctx.want_sample() and rng.random() < 0.01:
                  ctx.sample({'sheets': sheets, 'path': path_kind, 'cell': a,
                              'formula': '=' + ref.render(p.ast),
                              'observed': got, 'reference': want[1]})
              ok = got == want or (
                  got[0] == 'value' and want[1][0] == 'num'
                  and got[1][0] == 'num' and got[1][1] == want[1][1])
              # a blank read may surface as blank or as the number 0 when it is
              # the whole formula (=REF of an empty cell): both read "blank"
              if not ok:
                  ctx.fail(
                      f'[{path_kind}{prov_note}{"" if phase == "first" else ", after re-assigning " + phase}] {a} ="{ref.render(p.ast)}" ({p.kind} '
                      f'{p.spelling}) observed {got}, reference {want[1]}',
                      {'path': path_kind, 'model': prov, 'phase': phase,
                       'sheets': sheets, 'cell': a,
                       'formula': '=' + ref.render(p.ast), 'kind': p.kind,
                       'tags': sorted(p.tags), 'observed': got,
                       'reference': want[1],
                       'names': {k: build.name_target(v)
                                 for k, v in names.items()}},
                      kf=classify(p, got, want, path_kind, wb),
                      monitor='probe-value',
                      group=f'{path_kind}:{p.kind}:{p.spelling[:3]}:'
                            f'{",".join(sorted(p.tags))}')
        run_probes(probes, 'first')
        for key in failing:
            got = subject.outcome_of(lambda: ev.evaluate(build.addr(key)))
            ctx.event('failing_evaluations_before_reassignment')
            if got[0] != 'raised':
                ctx.note(f'the failing probe returned {got}')
        # ---- the switched chain: fails while the switch is on, gives the
        # current values of the cells it reads once the switch is off ---------
        if build.addr(k_y) in model.cells:
            bad_sw = []
            for state in (1, 0, 1, 0):
                if state != wb.cells[k_sw]:
                    ev.set_cell_value(build.addr(k_sw), state)
                    wb.cells[k_sw] = state
                for k_ in (k_y, k_x):
                    got = subject.outcome_of(
                        lambda: ev.evaluate(build.addr(k_)))
                    ctx.event('switched_chain_evaluations')
                    if state == 1:
                        if got[0] != 'raised':
                            bad_sw.append(f'switch on: {build.addr(k_)} -> '
                                          f'{got}, expected a failure')
                    else:
                        try:
                            want = ('value', ref.to_norm(wb.value(k_)))
                        except ref.Undecided:
                            continue
                        if got != want:
                            bad_sw.append(f'switch off (after it failed): '
                                          f'{build.addr(k_)} -> {str(got)[:160]}'
                                          f', reference {want[1]}')
            if bad_sw:
                ctx.fail(f'[{path_kind}{prov_note}] chain {build.addr(k_y)} -> '
                         f'{build.addr(k_x)} -> IF({build.addr(k_sw)}=1,'
                         f'NOSUCHFUNCTION(1),{sw_other}!B2): '
                         + '; '.join(bad_sw[:3]),
                         {'path': path_kind, 'model': prov, 'sheets': sheets,
                          'problems': bad_sw[:8]}, monitor='probe-value',
                         group='switched-chain:' + bad_sw[0][:10])
        # (the failing formulas once more: a FAILED evaluation is the last
        # thing that happens before the cells are re-assigned)
        for key in failing:
            subject.outcome_of(lambda: ev.evaluate(build.addr(key)))
            ctx.event('failing_evaluations_before_reassignment')
        # ---- the CURRENT value: cells of the blocks are re-assigned through
        # set_cell_value and a sample of the probes is evaluated again
        numeric = [k for k, v in cells.items()
                   if isinstance(v, (int, float)) and not isinstance(v, bool)]
        changed = rng.sample(numeric, min(len(numeric), 5))
        changed += [k for k in sorted(read_by_failed)
                    if k in numeric and k not in changed][:4]
        # cells that carry a defined name are (also) re-assigned through it
        name_of = {(t[1], t[2], t[3]): nm for nm, t in names.items()
                   if t[0] == 'ref' and nm in model.defined_names}
        changed += [k for k in name_of if k in numeric and k not in changed]
        try:
            from xlcalculator import xltypes
            routes = []
            # every way the API offers to assign a value; one way per
            # workbook, or mixed
            all_routes = ['evaluator, address text', 'evaluator, XLCell',
                          'model, address text', 'model, XLCell']
            fixed = rng.choice(all_routes + [None])
            for k in changed:
                v = cells[k] * 2 + 0.25
                route = fixed or rng.choice(all_routes)
                target = build.addr(k)
                if k in name_of and rng.random() < 0.8:
                    route = route.split(',')[0] + ', defined name'
                    target = name_of[k]
                    ctx.event('reassignments_by_name')
                elif 'XLCell' in route:
                    target = xltypes.XLCell(target, None)
                (ev if route.startswith('evaluator') else
                 model).set_cell_value(target, v)
                routes.append(route)
                wb.cells[k] = v
                ctx.event('reassignments_' + ('xlcell' if 'XLCell' in route
                                              else 'text'))
        except Exception as e:  # noqa
            ctx.fail(f'set_cell_value raised {e!r}', {'cells': [
                build.addr(k) for k in changed]}, monitor='construction',
                group='set')
            continue
        run_probes(rng.sample(probes, min(len(probes), 60)),
                   ', '.join(f'{build.addr(k)} ({r})'
                             for k, r in zip(changed, routes)))
        # names passed to evaluate()
        for nm, target in names.items():
            if target[0] != 'ref' or nm not in model.defined_names:
                continue
            got = subject.outcome_of(lambda: ev.evaluate(nm))
            want = ('value', ref.to_norm(wb.eval(target, None)))
            ctx.case(('evaluate-name', path_kind, want[1]))
            ctx.event('name_probes')
            if got != want:
                tags = {'name_on_quoted_sheet'} \
                    if ref.quote_sheet(target[1]) != target[1] else set()
                kf = 'KF-C03-04' if (tags and (got[0] == 'raised' or got[1] in
                                               (('blank',), ('num', 0.0)))) \
                    else None
                ctx.fail(f'evaluate({nm!r}) -> {got}, the name is bound to '
                         f'{build.name_target(target)} = {want[1]}',
                         {'name': nm, 'target': build.name_target(target),
                          'observed': got, 'reference': want[1]}, kf=kf,
                         monitor='probe-value', group='evaluate-name')
    # ---- whole rows and whole columns (2:2, $3:$3, A:A): the reference means
    # the row / column, also for cells that get their first value after the
    # model was compiled (a little beyond what the sheet used until then) ------
    if ctx.shard in (0, 1, 2, 3, 4, 5) or thorough:
        for round_ in range(4 if thorough else 1):
            data_s = rng.choice(['Rows', 'My Data', '2024'])
            qs = ref.quote_sheet(data_s)
            ncols = rng.randint(2, 5)
            d = {}
            for c in range(1, ncols + 1):
                d[f'{data_s}!{ref.col_letters(c)}2'] = c * 1.5
                d[f'{data_s}!{ref.col_letters(c)}3'] = c * 10
            for r in (5, 6, 7):
                d[f'{data_s}!A{r}'] = r * 100
            forms = {'A1': f'=SUM({qs}!2:2)', 'A2': f'=MAX({qs}!3:3)',
                     'A4': f'=SUM({qs}!$2:$3)'}
            # ... and bounded rectangles that reach past column ZZ
            for c, v in ((700, 7.0), (702, 11.0), (703, 13.0), (704, 17.0),
                         (705, 19.0), (731, 23.0)):
                d[f'{data_s}!{ref.col_letters(c)}9'] = v
            d['Calc!B1'] = f'=SUM({qs}!ZX9:AAC9)'
            d['Calc!B2'] = f'=SUM({qs}!AAB9:AAC9)+COUNT({qs}!$ZZ$9:$ABC$9)'
            d['Calc!B3'] = f'=SUM({qs}!AAA9:AAB9)-SUM({qs}!AAB9:AAB9)'
            if ctx.shard % 3 == 0:
                forms['A3'] = f'=SUM({qs}!A:A)'     # (a million cells: slow)
            for k_, f_ in forms.items():
                d[f'Calc!{k_}'] = f_
            try:
                ev_ = Evaluator(subject.compile_dict(d, default_sheet='Calc'))
            except Exception as e:  # noqa
                ctx.fail(f'workbook with whole-row references raised {e!r}',
                         {'cells': d}, monitor='construction',
                         group='whole-rows-build')
                continue
            state = {k_: v for k_, v in d.items() if not str(v).startswith('=')}

            def expect():
                row = lambda r: [v for k_, v in state.items()   # noqa
                                 if k_.startswith(data_s + '!') and
                                 k_.split('!')[1].lstrip('ABCDEFGHIJ') == str(r)]
                col_a = [v for k_, v in state.items()
                         if k_.startswith(data_s + '!') and
                         k_.split('!')[1].rstrip('0123456789') == 'A']
                return {'A1': sum(row(2)), 'A2': max(row(3)),
                        'A3': sum(col_a), 'A4': sum(row(2)) + sum(row(3)),
                        'A5': sum(row(2)) + sum(col_a)}
            for step in range(3):
                if step:
                    # a cell one to three columns / rows beyond the used area
                    far_c = ref.col_letters(ncols + rng.randint(1, 3))
                    a_ = rng.choice([f'{data_s}!{far_c}2', f'{data_s}!{far_c}3',
                                     f'{data_s}!A{8 + rng.randint(0, 2)}',
                                     f'{data_s}!A2'])
                    v_ = float(rng.randint(1000, 9000))
                    ev_.set_cell_value(a_, v_)
                    state[a_] = v_
                want = expect()
                for k_b, w_b in (('B1', 7.0 + 11 + 13 + 17 + 19),
                                 ('B2', 17.0 + 19 + 5), ('B3', 13.0)):
                    got = subject.outcome_of(
                        lambda: ev_.evaluate(f'Calc!{k_b}'))
                    ctx.event('whole_row_column_evaluations')
                    if got != ('value', ('num', w_b)):
                        ctx.fail(f'{d["Calc!" + k_b]} over values at columns '
                                 f'ZX, ZZ, AAA, AAB, AAC, ABC of row 9: '
                                 f'observed {got}, expected {w_b}',
                                 {'formula': d['Calc!' + k_b],
                                  'observed': got, 'reference': w_b},
                                 monitor='probe-value',
                                 group='beyond-ZZ:' + k_b)
                for k_ in forms:
                    got = subject.outcome_of(
                        lambda: ev_.evaluate(f'Calc!{k_}'))
                    ctx.event('whole_row_column_evaluations')
                    ctx.case(('whole-row-col', k_, step, ncols))
                    if got != ('value', ('num', float(want[k_]))):
                        ctx.fail(f'{forms[k_]} after {step} cells were '
                                 f'assigned beyond the area used at compile '
                                 f'time (contents now {state}): observed '
                                 f'{got}, expected {float(want[k_])}',
                                 {'formula': forms[k_], 'cells': state,
                                  'observed': got,
                                  'reference': float(want[k_])},
                                 monitor='probe-value',
                                 group=f'whole-row-col:{k_}:{min(step, 1)}')
    ctx.event('range_evals_traced', tracer.range_evals)
    ctx.event('cross_sheet_requests_traced', tracer.cross_sheet)
    ctx.event('deref_requests_traced', tracer.requests)

    # ---- helpers: resolve_ranges / XLRange / column arithmetic --------------
    import importlib
    from xlcalculator import xltypes, tokenizer
    utils = importlib.import_module('xlcalculator.utils')
    if not (hasattr(utils, 'resolve_ranges') and hasattr(xltypes, 'XLRange')):
        ctx.note('helper sub-check skipped: utils.resolve_ranges / '
                 'xltypes.XLRange not present under these names')
        return
    for _ in range(40 if not thorough else 400):
        s = rng.choice(SHEETS)
        c1, r1 = rng.choice([rng.randint(1, 60), rng.randint(696, 706),
                             rng.randint(16370, 16376)]), rng.randint(1, 60)
        c2, r2 = c1 + rng.randint(0, 7), r1 + rng.randint(0, 7)
        fl = tuple(rng.random() < 0.3 for _ in range(4))
        text = ref.render_ref(('rng', s, c1, r1, c2, r2, fl))
        want_m = [[f'{s}!{ref.col_letters(c)}{r}' for c in range(c1, c2 + 1)]
                  for r in range(r1, r2 + 1)]
        for what, fn in (('resolve_ranges',
                          lambda: utils.resolve_ranges(text)),
                         ('XLRange', lambda: (
                             xltypes.XLRange(text).sheet,
                             xltypes.XLRange(text).cells))):
            got = subject.outcome_of_raw(fn)
            ctx.event('resolve_ranges_cases')
            ctx.case((what, c2 - c1, r2 - r1, s, fl))
            if got[0] == 'raised' or got[1][0] != s or \
                    [list(r) for r in got[1][1]] != want_m:
                ctx.fail(f'{what}({text!r}) -> {str(got)[:300]}, expected '
                         f'sheet {s!r} and row-major {want_m[:2]}...',
                         {'text': text, 'observed': str(got)[:1000]},
                         monitor='helper-contract', group=what)
    if ctx.shard == 0 and hasattr(tokenizer, 'num2col') and \
            hasattr(tokenizer, 'col2num'):
        bad = None
        for n in range(1, 18279):
            letters = ref.col_letters(n)
            try:
                if tokenizer.num2col(n) != letters or \
                        tokenizer.col2num(letters) != n:
                    bad = (n, letters, tokenizer.num2col(n),
                           tokenizer.col2num(letters))
                    break
            except Exception as e:  # noqa
                bad = (n, letters, repr(e))
                break
        ctx.event('columns_roundtrip', 18278)
        ctx.case(('columns-roundtrip',))
        ctx.block('all 18278 columns num2col/col2num', 18278)
        if bad:
            ctx.fail(f'num2col/col2num disagree with the reference at {bad}',
                     {'witness': bad}, monitor='helper-contract',
                     group='columns')
