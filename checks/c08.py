"""C08 — functions coerce arguments the Excel way, however the value is spelt.

Events: outcome of xl.FUNCTIONS[name](*spelling_i(args)) for every spelling of
every declared-numeric / declared-text position (read from the LIVE
signatures), Evaluator.evaluate of =f(...) with the argument given as literal,
cell reference and text; the arithmetic table; case/prefix variants of function
names; functions registered during the run.
Oracle: metamorphic (every spelling of one value gives the result of the
canonical spelling) + the coercion table of the statement.
"""
import inspect
import typing

from vlib import catalog, monitors, ref, subject

PROPERTY = 'C08'
RULE = ('every registered function x every scalar parameter declared numeric '
        '(annotation XlNumber, or the Number class) x spellings {int, float, '
        'numpy.int64/float64, Number, decimal text, Text, scientific text, '
        'TRUE/Boolean for 1, FALSE/blank/Blank for 0, non-numeric text -> '
        '#VALUE!}, each passed positionally and by keyword; every text parameter x {int, float, whole float, boolean, '
        'Number, Boolean}; arithmetic table over {number, numeric text, '
        'TRUE/FALSE, blank} x 5 arithmetic operators and &, as library calls '
        '(native and typed) and as formulas (literals and cell references); '
        'function names in random case and with _xlfn. prefix; functions '
        'registered during the run.  distinct non-trivial = distinct '
        '(function, position, spelling class) whose canonical result is a '
        'value')
ASSUMPTIONS = [
    'example calls per function come from vlib/catalog.py (valid domain); '
    'the canonical spelling is the Python float',
    'variadic parameters (SUM, AVERAGE, MIN, ...) are not part of the '
    'spelling rule: Excel itself treats booleans/text given directly '
    'differently from those found through references',
]
FLOORS = {'numeric_spelling_cases': 600, 'text_spelling_cases': 100,
          'arithmetic_cases': 400, 'name_lookup_cases': 100,
          'user_function_cases': 10, 'numpy_spellings': 100,
          'formula_cases': 120, 'keyword_spelling_cases': 300,
          'empty_text_cases': 20, 'numeric_by_meaning_cases': 100,
          'blank_for_defaulted_parameter_cases': 20,
          'big_integer_spelling_cases': 50,
          'scientific_text_cases': 150, 'host_decimal_context_cases': 100}
ANCHOR_FUNCS = {
    'xlcalculator/xlfunctions/xl.py': ['validate_args.<locals>.validate',
                                       '_validate', 'register',
                                       'Functions.register'],
    'xlcalculator/xlfunctions/func_xltypes.py': ['ExcelType.cast',
                                                 'Text.__number__'],
    'xlcalculator/ast_nodes.py': ['FunctionNode.eval'],
}
TIMEOUT = {'quick': 600, 'thorough': 2400}
SKIP = catalog.VOLATILE | catalog.SPIES | {
    'IF', 'AND', 'OR', 'NOT', 'TRUE', 'FALSE', 'NA', 'PI', 'VDB'}


NON_NUMERIC = ['abc', '3 apples', 'room 12', '10 km', 'about 7', '12abc',
               'x1', 'nan', 'inf', 'Infinity', '-inf', '1_000',
               # str.isdigit() says yes, int() says no
               '\u00b2', '5\u00b2', '10\u00b3', '\u2460', '\u2082', '+\u2462']


def shards(tier):
    return 8


def same(a, b):
    if a == b:
        return True
    if a[0] == 'value' and b[0] == 'value' and a[1][0] == 'num' and \
            b[1][0] == 'num':
        x, y = a[1][1], b[1][1]
        return abs(x - y) <= 1e-12 * max(abs(x), abs(y), 1e-300)
    return False


def textform(v, quirk=False):
    if isinstance(v, bool):
        return ('True' if v else 'False') if quirk else \
            ('TRUE' if v else 'FALSE')
    if isinstance(v, float) and v.is_integer():
        return repr(v) if quirk else str(int(v))
    return str(v)


def run(ctx):
    import numpy
    from xlcalculator.xlfunctions import xl, func_xltypes as T
    from xlcalculator import Evaluator
    F = xl.FUNCTIONS
    rng = ctx.rng
    sh, n = ctx.shard, ctx.nshards
    work = 0

    def mine():
        nonlocal work
        work += 1
        return work % n == sh

    def report(what, witness, kf=None, group=None, monitor='coercion'):
        ctx.fail(what, witness, kf=kf, monitor=monitor, group=group)

    def spellings(v):
        out = [('float', float(v))]
        whole = float(v).is_integer()
        if whole:
            out.append(('int', int(v)))
            out.append(('numpy.int64', numpy.int64(int(v))))
            out.append(('Number-int', T.Number(int(v))))
        out.append(('numpy.float64', numpy.float64(v)))
        out.append(('Number-float', T.Number(float(v))))
        dec = str(int(v)) if whole else repr(float(v))
        out.append(('text-decimal', dec))
        out.append(('Text-decimal', T.Text(dec)))
        out.append(('text-scientific', '%.10e' % v))
        # ... as Excel itself writes it: upper-case E
        out.append(('text-scientific-E', '%.10E' % v))
        out.append(('Text-scientific-E', T.Text('%.10E' % v)))
        if whole:
            out.append(('text-whole-decimal', '%d.0' % v))
        if v == 1:
            out += [('TRUE', True), ('Boolean-TRUE', T.Boolean(True))]
        if v == 0:
            out += [('FALSE', False), ('Boolean-FALSE', T.Boolean(False)),
                    ('blank-None', None), ('Blank', T.BLANK)]
        return out

    def is_numeric_annotation(a):
        return a is T.XlNumber or a is T.Number

    formulas = []      # (text, inputs, meta)

    # ---- A. numeric positions -------------------------------------------------
    for fname in sorted(F):
        if fname in SKIP or fname not in catalog.EX:
            continue
        f = F[fname]
        ex = catalog.EX[fname]
        try:
            sig = inspect.signature(f)
        except (TypeError, ValueError):
            continue
        params = list(sig.parameters.values())
        for pos, exv in enumerate(ex):
            # find the parameter this position binds to
            if pos < len(params) and params[pos].kind != \
                    params[pos].VAR_POSITIONAL:
                p = params[pos]
                variadic = False
                ann = p.annotation
            else:
                # variadic parameters (SUM, AVERAGE, MIN ...) are not part of
                # this rule: Excel itself treats a boolean or text given
                # directly differently from one found through a reference
                continue
            if isinstance(exv, (list, str, bool)) or exv is None:
                continue
            if not is_numeric_annotation(ann):
                continue
            values = [exv]
            if fname in ('POWER', 'OP_ADD', 'OP_MUL', 'SUM', 'MAX', 'ROUND',
                         'MOD', 'ATAN2') or ann is T.Number:
                values += [v for v in (0, 1) if v != exv and not (
                    fname in ('MOD', 'LOG', 'LOG10', 'ATAN2') and v == 0)]
            for v in values:
                if not mine():
                    continue
                base = [T.Array(a) if isinstance(a, list) else a for a in ex]
                base[pos] = float(v)
                canonical = monitors.call_outcome(f, *base)
                if canonical[0] != 'value' or canonical[1][0] == 'err':
                    continue
                for sname, sval in spellings(v):
                    args = list(base)
                    args[pos] = sval
                    got = monitors.call_outcome(f, *args)
                    ctx.event('numeric_spelling_cases')
                    if sname.startswith('numpy'):
                        ctx.event('numpy_spellings')
                    ctx.case((fname, pos, sname))
                    if ctx.want_sample() and rng.random() < 0.004:
                        ctx.sample({'call': f'{fname}{tuple(args)!r}',
                                    'spelling': sname, 'observed': got,
                                    'canonical': canonical})
                    if not same(got, canonical):
                        report(f'{fname}: position {pos} spelt as {sname} '
                               f'({sval!r}) -> {got}, the float spelling '
                               f'gives {canonical}',
                               {'function': fname, 'position': pos,
                                'spelling': sname, 'value': repr(sval),
                                'observed': got, 'canonical': canonical},
                               group=f'numeric:{sname}:{got[0]}:'
                                     f'{got[1][:20] if got[0] == "raised" else got[1][0]}:{fname}')
                # the same spellings with the argument passed BY NAME (the
                # Python calling convention the library's own tests use, e.g.
                # PMT(..., type=1)): how a value is handed over is no part of
                # how it is spelt
                tail = params[pos:len(ex)]
                if all(q.kind == q.POSITIONAL_OR_KEYWORD for q in tail):
                    for sname, sval in spellings(v) + [('text-nonnumeric',
                                                        'abc')]:
                        args = list(base)
                        args[pos] = sval
                        kw = {q.name: args[pos + i]
                              for i, q in enumerate(tail)}
                        got = monitors.call_outcome(
                            lambda: f(*args[:pos], **kw))
                        ctx.event('keyword_spelling_cases')
                        ctx.case((fname, pos, 'kw:' + sname))
                        want = canonical if sname != 'text-nonnumeric' else \
                            ('value', ('err', '#VALUE!'))
                        if not same(got, want):
                            report(f'{fname}: parameter {p.name} passed by '
                                   f'name, spelt as {sname} ({sval!r}) -> '
                                   f'{got}, expected {want}',
                                   {'function': fname, 'position': pos,
                                    'keyword': p.name, 'spelling': sname,
                                    'value': repr(sval), 'observed': got,
                                    'canonical': want},
                                   group=f'keyword:{sname}:{got[0]}:{fname}')
                # non-numeric text -> #VALUE!  (words, a number with other
                # content around it, and the spellings Python's float() reads
                # but a spreadsheet does not: nan, inf, digit separators)
                for bad_text in (NON_NUMERIC if not variadic else ()):
                    args = list(base)
                    args[pos] = bad_text
                    got = monitors.call_outcome(f, *args)
                    ctx.event('numeric_spelling_cases')
                    ctx.event('non_numeric_text_cases')
                    ctx.case((fname, pos, 'text-nonnumeric', bad_text))
                    if got != ('value', ('err', '#VALUE!')):
                        report(f'{fname}: non-numeric text {bad_text!r} at '
                               f'numeric position {pos} -> {got}, expected '
                               f'#VALUE!',
                               {'function': fname, 'position': pos,
                                'args': [repr(a) for a in args],
                                'observed': got},
                               group=f'nonnumeric:{bad_text}:{got[0]}:'
                                     f'{got[1][0] if got[0] == "value" else got[1][:12]}')
                # formula spelling: the argument as cell reference holding
                # number / numeric text / boolean / blank
                if all(not isinstance(a, list) for a in ex) and \
                        fname not in ('OP_ADD', 'OP_SUB', 'OP_MUL', 'OP_DIV',
                                      'OP_EQ', 'OP_NE', 'OP_GT', 'OP_LT',
                                      'OP_GE', 'OP_LE', 'OP_NEG',
                                      'OP_PERCENT'):
                    cell_spellings = [('cell-number', float(v)),
                                      ('cell-text', str(int(v)) if float(
                                          v).is_integer() else repr(
                                              float(v)))]
                    if v == 1:
                        cell_spellings.append(('cell-TRUE', True))
                    if v == 0:
                        cell_spellings += [('cell-FALSE', False),
                                           ('cell-blank', None)]
                    for sname, sval in cell_spellings:
                        parts = []
                        for i, a in enumerate(ex):
                            if i == pos:
                                parts.append('A1')
                            elif isinstance(a, (int, float)) and \
                                    not isinstance(a, bool) and a < 0:
                                parts.append('-' + subject.lit(-a))
                            else:
                                parts.append(subject.lit(a))
                        text = f'={fname}(' + ','.join(parts) + ')'
                        inputs = {} if sval is None else {'A1': sval}
                        formulas.append((text, inputs, {
                            'canonical': canonical, 'fname': fname,
                            'pos': pos, 'sname': sname}))

    for text, inputs, meta in formulas:
        got = subject.eval_one(text, inputs)
        ctx.event('formula_cases')
        ctx.case((meta['fname'], meta['pos'], meta['sname']))
        if not same(got, meta['canonical']):
            report(f'{text} with A1={inputs.get("A1")!r} ({meta["sname"]}) '
                   f'-> {got}, canonical {meta["canonical"]}',
                   {'formula': text, 'A1': repr(inputs.get('A1')),
                    'observed': got, 'canonical': meta['canonical']},
                   group=f'formula:{meta["sname"]}:{got[0]}:{meta["fname"]}')

    # ---- B. text positions: numbers / booleans by their text form --------------
    nontext = [('int', 123), ('float', 12.5), ('whole-float', 2.0),
               ('negative', -5), ('TRUE', True), ('FALSE', False),
               ('Number', T.Number(7)), ('Boolean', T.Boolean(True))]
    for fname in sorted(F):
        if fname in SKIP or fname not in catalog.EX:
            continue
        f = F[fname]
        ex = catalog.EX[fname]
        params = list(inspect.signature(f).parameters.values())
        for pos, exv in enumerate(ex):
            if pos < len(params) and params[pos].kind != \
                    params[pos].VAR_POSITIONAL:
                ann = params[pos].annotation
            else:
                vp = [q for q in params if q.kind == q.VAR_POSITIONAL]
                ann = getattr(vp[0].annotation, '__args__', [None])[0] \
                    if vp else None
            if ann is not T.XlText or not isinstance(exv, str):
                continue
            if not mine():
                continue
            for sname, sval in nontext:
                native = sval.value if isinstance(sval, T.ExcelType) else sval
                args = list(ex)
                args[pos] = sval
                got = monitors.call_outcome(f, *args)
                args[pos] = textform(native)
                want = monitors.call_outcome(f, *args)
                ctx.event('text_spelling_cases')
                ctx.case((fname, pos, 'text:' + sname))
                if not same(got, want):
                    args[pos] = textform(native, quirk=True)
                    q = monitors.call_outcome(f, *args)
                    kf = None
                    if same(got, q):
                        kf = 'KF-C08-01' if isinstance(native, bool) \
                            else 'KF-C08-02'
                    report(f'{fname}: position {pos} given {sval!r} -> {got}, '
                           f'its text form {textform(native)!r} gives {want}',
                           {'function': fname, 'position': pos,
                            'value': repr(sval), 'observed': got,
                            'with_text_form': want}, kf=kf,
                           group=f'textform:{sname}:{fname}')

    # ---- C. arithmetic table -----------------------------------------------------
    operands = [('number', 2.5), ('int', 3), ('zero', 0),
                ('numtext', '3'), ('numtext-dec', '1.5'),
                ('scitext', '2e1'), ('TRUE', True), ('FALSE', False),
                ('blank', None), ('text', 'abc'),
                # zero spelt as numeric text in its various forms
                ('zerotext-0.0', '0.0'), ('zerotext-00', '00'),
                ('zerotext-neg', '-0'), ('zerotext-sci', '0E+00')]
    ops = {'+': 'OP_ADD', '-': 'OP_SUB', '*': 'OP_MUL', '/': 'OP_DIV',
           '^': 'POWER', '&': 'CONCAT'}
    ftexts, fmeta = [], []
    finputs = {}
    row = 0
    for (an, a), (bn, b) in [(x, y) for x in operands for y in operands]:
        for sym, fname in ops.items():
            if not mine():
                continue
            if sym == '/' and an == 'text' and (bn in ('zero', 'FALSE',
                                                       'blank') or
                                                bn.startswith('zerotext')):
                continue      # two errors at once: which one wins is C07's
            try:
                want = ('value', ref.to_norm(ref.binop(sym, a, b)))
            except ref.Undecided:
                continue
            feats = set(ref.FEATURES)
            for mode in ('native', 'typed'):
                x, y = a, b
                if mode == 'typed':
                    x = T.ExcelType.cast_from_native(a)
                    y = T.ExcelType.cast_from_native(b)
                got = monitors.call_outcome(F[fname], x, y)
                ctx.event('arithmetic_cases')
                ctx.case((sym, an, bn, mode))
                if not same(got, want):
                    kf = None
                    if sym == '&':
                        ref.QUIRKS.add('bool_text_title')
                        try:
                            q = ('value', ref.to_norm(ref.binop(sym, a, b)))
                        except ref.Undecided:
                            q = None
                        ref.QUIRKS.discard('bool_text_title')
                        if q and same(got, q) and q != want:
                            kf = 'KF-C08-01'
                    report(f'{a!r} {sym} {b!r} [{mode} library call] -> '
                           f'{got}, table gives {want[1]}',
                           {'left': repr(a), 'op': sym, 'right': repr(b),
                            'mode': mode, 'observed': got,
                            'reference': want[1]}, kf=kf,
                           group=f'arith:{sym}:{an}:{bn}:{mode}')
            # formula over cells
            row += 1
            for col, v in (('A', a), ('B', b)):
                if v is not None:
                    finputs[f'{col}{row}'] = v
            ftexts.append(f'=A{row}{sym}B{row}')
            fmeta.append((sym, an, bn, a, b, want))
    outs = subject.eval_batch(ftexts, finputs) if ftexts else []
    for (sym, an, bn, a, b, want), text, got in zip(fmeta, ftexts, outs):
        ctx.event('arithmetic_cases')
        ctx.case((sym, an, bn, 'cells'))
        if not same(got, want):
            kf = None
            if sym == '&':
                ref.QUIRKS.add('bool_text_title')
                try:
                    q = ('value', ref.to_norm(ref.binop(sym, a, b)))
                except ref.Undecided:
                    q = None
                ref.QUIRKS.discard('bool_text_title')
                if q and same(got, q) and q != want:
                    kf = 'KF-C08-01'
            report(f'{text} with {a!r}, {b!r} -> {got}, table gives '
                   f'{want[1]}', {'formula': text, 'left': repr(a),
                                  'right': repr(b), 'observed': got,
                                  'reference': want[1]}, kf=kf,
                   group=f'arith-cells:{sym}:{an}:{bn}')

    # ---- C3. the empty text is a text (not numeric): in a cell or as a literal ----
    if sh == 0:
        forms = {'=A1+1': 'err', '=A1*2': 'err', '=5-A1': 'err',
                 '=-A1': 'err', '=ABS(A1)': 'err', '=POWER(2,A1)': 'err',
                 '=A1&"x"': ('text', 'x'), '=LEN(A1)': ('num', 0.0),
                 '=""+1': 'err', '=ABS("")': 'err', '=""&"x"': ('text', 'x')}
        for holder in ('', T.Text('')):
            outs = subject.eval_batch(list(forms), {'A1': 0},
                                      post_set={'Sheet1!A1': holder})
            for (text, want), got in zip(forms.items(), outs):
                ctx.event('arithmetic_cases')
                ctx.event('empty_text_cases')
                ctx.case(('empty-text', text, type(holder).__name__))
                ok = (got == ('value', ('err', '#VALUE!'))) if want == 'err' \
                    else got == ('value', want)
                if not ok:
                    report(f'{text} with A1 holding the empty text '
                           f'({holder!r}) -> {got}, expected '
                           f'{"#VALUE!" if want == "err" else want}',
                           {'formula': text, 'A1': repr(holder),
                            'observed': got},
                           group=f'empty-text:{text}')

    # ---- A2. whole-number parameters that are numeric by the function's meaning
    # although their annotation says "anything" (the number of DEC2BIN/OCT/HEX,
    # the places of every base conversion): every spelling of the whole number
    # gives what the int gives ------------------------------------------------
    by_meaning = [('DEC2BIN', (12,), 0), ('DEC2OCT', (58,), 0),
                  ('DEC2HEX', (255,), 0), ('DEC2BIN', (5, 8), 1),
                  ('DEC2OCT', (58, 6), 1), ('DEC2HEX', (255, 4), 1),
                  ('BIN2OCT', ('1100', 6), 1), ('BIN2HEX', ('1100', 4), 1),
                  ('OCT2BIN', ('7', 6), 1), ('OCT2HEX', ('72', 5), 1),
                  ('HEX2BIN', ('F', 8), 1), ('HEX2OCT', ('F', 3), 1)]
    for fname, ex_, pos in by_meaning:
        if fname not in F or not mine():
            continue
        v = ex_[pos]
        canonical = monitors.call_outcome(F[fname], *ex_)
        if canonical[0] != 'value' or canonical[1][0] == 'err':
            continue
        forms = [('float', float(v)), ('numpy.int64', numpy.int64(v)),
                 ('numpy.float64', numpy.float64(v)),
                 ('Number-int', T.Number(v)), ('Number-float',
                                               T.Number(float(v))),
                 ('text-decimal', str(v)), ('Text-decimal', T.Text(str(v))),
                 ('text-whole-decimal', '%d.0' % v),
                 ('Text-whole-decimal', T.Text('%d.0' % v)),
                 ('text-scientific', '%.3e' % v),
                 ('text-scientific-E', '%.3E' % v),
                 ('Text-scientific-E', T.Text('%.3E' % v))]
        for sname, sval in forms:
            args = list(ex_)
            args[pos] = sval
            got = monitors.call_outcome(F[fname], *args)
            ctx.event('numeric_spelling_cases')
            ctx.event('numeric_by_meaning_cases')
            ctx.case((fname, pos, 'by-meaning', sname))
            if not same(got, canonical):
                report(f'{fname}: whole-number position {pos} spelt as '
                       f'{sname} ({sval!r}) -> {got}, the int spelling gives '
                       f'{canonical}',
                       {'function': fname, 'position': pos, 'spelling': sname,
                        'value': repr(sval), 'observed': got,
                        'canonical': canonical},
                       group=f'by-meaning:{sname}:{got[0]}:{fname}')
        # ... and through a formula: the argument in a cell (number, text)
        for sname, sval in (('cell-number', float(v)), ('cell-text', str(v)),
                            ('cell-text-decimal', '%d.0' % v),
                            ('cell-text-scientific', '%.3E' % v)):
            parts = ['A1' if i == pos else subject.lit(a)
                     for i, a in enumerate(ex_)]
            text = f'={fname}(' + ','.join(parts) + ')'
            got = subject.eval_one(text, {'A1': sval})
            ctx.event('numeric_by_meaning_cases')
            ctx.case((fname, pos, 'by-meaning', sname))
            if not same(got, canonical):
                report(f'{text} with A1 = {sval!r} -> {got}, the int '
                       f'argument gives {canonical}',
                       {'formula': text, 'A1': repr(sval), 'observed': got,
                        'canonical': canonical},
                       group=f'by-meaning:{sname}:{got[0]}:{fname}')

    # ---- A4. a blank given for a numeric parameter that HAS a default other
    # than 0 is still the number 0 (a blank is a value that was given; the
    # default is for an argument that was left out) --------------------------
    for fname in sorted(F):
        if fname in SKIP or fname not in catalog.EX:
            continue
        try:
            params = list(inspect.signature(F[fname]).parameters.values())
        except (TypeError, ValueError):
            continue
        ex = list(catalog.EX[fname])
        for pos, p_ in enumerate(params):
            d_ = p_.default
            if p_.kind != p_.POSITIONAL_OR_KEYWORD or \
                    not is_numeric_annotation(p_.annotation) or \
                    d_ is inspect.Parameter.empty or isinstance(d_, bool) or \
                    not isinstance(d_, (int, float)) or d_ == 0:
                continue
            base, ok_ = [], True
            for i in range(pos):
                if i < len(ex):
                    base.append(ex[i])
                elif params[i].default is not inspect.Parameter.empty:
                    base.append(params[i].default)
                else:
                    ok_ = False
            if not ok_ or not mine():
                continue
            lib_base = [T.Array(a) if isinstance(a, list) else a for a in base]
            canonical = monitors.call_outcome(F[fname], *lib_base, 0.0)
            if canonical[0] != 'value':
                continue
            for sname, sval in (('blank-None', None), ('Blank', T.BLANK),
                                ('int-0', 0), ('Number-0', T.Number(0))):
                got = monitors.call_outcome(F[fname], *lib_base, sval)
                ctx.event('numeric_spelling_cases')
                ctx.event('blank_for_defaulted_parameter_cases')
                ctx.case((fname, pos, 'defaulted', sname))
                if not same(got, canonical):
                    report(f'{fname}: parameter {p_.name} (default {d_!r}) '
                           f'given as {sname} -> {got}, given as 0.0 -> '
                           f'{canonical}',
                           {'function': fname, 'position': pos,
                            'parameter': p_.name, 'default': repr(d_),
                            'spelling': sname, 'observed': got,
                            'canonical': canonical},
                           group=f'defaulted:{sname}:{fname}')
            if all(not isinstance(a, list) for a in base):
                head = ','.join(subject.lit(a) if not (
                    isinstance(a, (int, float)) and not isinstance(a, bool)
                    and a < 0) else '-' + subject.lit(-a) for a in base)
                for sname, text, inputs in (
                        ('cell-blank', f'={fname}({head},Z99)', {}),
                        ('cell-zero', f'={fname}({head},Z99)', {'Z99': 0}),
                        ('literal-zero', f'={fname}({head},0)', {})):
                    got = subject.eval_one(text, inputs)
                    ctx.event('blank_for_defaulted_parameter_cases')
                    ctx.case((fname, pos, 'defaulted', sname))
                    if not same(got, canonical):
                        report(f'{text} with {inputs or "Z99 empty"} -> '
                               f'{got}; {fname} with 0.0 for {p_.name} gives '
                               f'{canonical}',
                               {'formula': text, 'inputs': inputs,
                                'observed': got, 'canonical': canonical},
                               group=f'defaulted:{sname}:{fname}')

    # ---- A2b. a digit string given as a NUMBER (BIN2DEC(101)): the whole number
    # may be an int, a whole float, a numpy scalar, a Number or a float cell ---
    for fname, ex_ in (('BIN2DEC', (101,)), ('OCT2DEC', (17,)),
                       ('HEX2DEC', (19,)), ('BIN2HEX', (1100,)),
                       ('OCT2BIN', (7,)), ('HEX2OCT', (12,))):
        if fname not in F or not mine():
            continue
        v = ex_[0]
        canonical = monitors.call_outcome(F[fname], v)
        if canonical[0] != 'value' or canonical[1][0] == 'err':
            continue
        for sname, sval in (('float', float(v)),
                            ('numpy.int64', numpy.int64(v)),
                            ('numpy.float64', numpy.float64(v)),
                            ('Number-int', T.Number(v)),
                            ('Number-float', T.Number(float(v))),
                            ('text-decimal', str(v)),
                            ('Text-decimal', T.Text(str(v)))):
            got = monitors.call_outcome(F[fname], sval)
            ctx.event('numeric_spelling_cases')
            ctx.event('numeric_by_meaning_cases')
            ctx.case((fname, 0, 'digits-as-number', sname))
            if not same(got, canonical):
                report(f'{fname}: digit string given as {sname} ({sval!r}) '
                       f'-> {got}, the int gives {canonical}',
                       {'function': fname, 'position': 0, 'spelling': sname,
                        'value': repr(sval), 'observed': got,
                        'canonical': canonical},
                       group=f'digits-as-number:{sname}:{got[0]}:{fname}')
        for sname, text, inputs in (
                ('cell-float', f'={fname}(A1)', {'A1': float(v)}),
                ('computed', f'={fname}(A1/2)', {'A1': 2 * v}),
                ('literal', f'={fname}({v})', {})):
            got = subject.eval_one(text, inputs)
            ctx.event('numeric_by_meaning_cases')
            ctx.case((fname, 0, 'digits-as-number', sname))
            if not same(got, canonical):
                report(f'{text} with {inputs} -> {got}, the int argument '
                       f'gives {canonical}',
                       {'formula': text, 'inputs': inputs, 'observed': got,
                        'canonical': canonical},
                       group=f'digits-as-number:{sname}:{got[0]}:{fname}')

    # ---- A3. numbers in scientific notation, as text and as literals: upper- and
    # lower-case exponent, fractions and negatives ---------------------------
    if sh in (2, 3):
        sci = ['2.5E0', '1E-3', '-1.25E1', '1.5E+3', '2.5e0', '1e-3',
               '-1.25e1', '1E3', '7.25E-2', '-4E-1', '6.02E+23', '1.0E+0',
               '9.99E2', '-3.5E-5']
        for t in sci:
            want = float(t)
            calls = [('OP_ADD', (t, 0), want), ('OP_MUL', (T.Text(t), 1),
                                                 want),
                     ('ABS', (t,), abs(want)), ('OP_SUB', (0, T.Text(t)),
                                               -want),
                     ('SUM', (T.Text(t), 0), None)]
            for fname, args, w in calls:
                if w is None:
                    continue
                got = monitors.call_outcome(F[fname], *args)
                ctx.event('scientific_text_cases')
                ctx.case(('scientific', fname, t))
                if not same(got, ('value', ('num', w))):
                    report(f'{fname}{args!r} -> {got}, the text denotes '
                           f'{want!r}', {'function': fname,
                                         'args': [repr(a) for a in args],
                                         'observed': got, 'canonical': w},
                           group=f'scientific:{fname}:{got[0]}')
            lit_ = t if not t.startswith('-') else t      # a literal in a formula
            for text, inputs, w in (
                    (f'={lit_}+1', {}, want + 1),
                    (f'=A1+1', {'A1': t}, want + 1),
                    (f'=ABS(A1)', {'A1': t}, abs(want)),
                    (f'=1*"{t}"', {}, want)):
                got = subject.eval_one(text, inputs)
                ctx.event('scientific_text_cases')
                ctx.case(('scientific', text, t))
                if not same(got, ('value', ('num', w))):
                    report(f'{text} with {inputs} -> {got}, expected {w!r}',
                           {'formula': text, 'inputs': inputs,
                            'observed': got, 'canonical': w},
                           group=f'scientific:formula:{got[0]}')

    # ---- A5. whole numbers beyond 2^53 keep every digit however they are given:
    # as a literal in the formula, as a cell value, as numeric text -------------
    if sh in (4, 5):
        for big in (2 ** 53 + 1, 9007199254740993, 10 ** 17 + 3,
                    12345678901234567891, -(2 ** 53) - 3):
            lit_ = str(big) if big >= 0 else '-' + str(-big)
            base_ = big - 1 if big > 0 else big + 1
            cases = [
                (f'={lit_}-A1', {'A1': base_}, float(big - base_)),
                (f'=A2-A1', {'A1': base_, 'A2': big}, float(big - base_)),
                (f'="{lit_}"-A1', {'A1': base_}, float(big - base_)),
                (f'=MOD({lit_},10)', {}, float(big % 10)),
                (f'=MOD(A2,10)', {'A2': big}, float(big % 10)),
                (f'={lit_}={base_ if base_ >= 0 else "-" + str(-base_)}', {},
                 False),
            ]
            for text, inputs, want in cases:
                got = subject.eval_one(text, inputs)
                ctx.event('big_integer_spelling_cases')
                ctx.case(('big-int', text[:14], big))
                wn = ('bool', want) if isinstance(want, bool) else \
                    ('num', want)
                if got != ('value', wn):
                    report(f'{text} with {inputs} -> {got}, expected '
                           f'{want!r} (whole numbers keep their digits '
                           f'however they are written)',
                           {'formula': text, 'inputs': inputs,
                            'observed': got, 'canonical': want},
                           group=f'big-int:{text[:8]}:{got[0]}')

    # ---- C4. numeric text is read the same whatever decimal context the calling
    # application has set for its own arithmetic -------------------------------
    if sh in (0, 1):
        import decimal
        texts_ = ['3.14159', '2.718281828', '1234567.891', '2.5e-3',
                  '-0.000123456', '12', '1e3', '0.1']
        for t in texts_:
            for host in (decimal.Context(prec=4),
                         decimal.Context(prec=3,
                                         rounding=decimal.ROUND_DOWN),
                         decimal.Context(prec=6, traps=[decimal.Inexact])):
                for fname, args, want in (
                        ('OP_ADD', (t, 1), float(t) + 1),
                        ('OP_MUL', (T.Text(t), 2), float(t) * 2),
                        ('ABS', (t,), abs(float(t))),
                        ('ROUND', (1.23456, '3'), 1.235),
                        ('POWER', (t, 1), float(t))):
                    with decimal.localcontext(host):
                        got = monitors.call_outcome(F[fname], *args)
                    ctx.event('host_decimal_context_cases')
                    ctx.case(('host-context', fname, t, host.prec))
                    if not same(got, ('value', ('num', want))):
                        report(f'{fname}{args!r} under the caller\'s decimal '
                               f'context (prec={host.prec}) -> {got}, '
                               f'expected {want}',
                               {'function': fname,
                                'args': [repr(a) for a in args],
                                'observed': got, 'canonical': want},
                               group=f'host-context:{fname}:{got[0]}')

    # ---- C2. sign chains: -x, --x, ---x coerce like any arithmetic -----------------
    utexts, umeta, uinputs = [], [], {}
    urow = 0
    for an, a in operands:
        if not mine():
            continue
        for signs in (1, 2, 3, 4):
            try:
                v = a
                for _ in range(signs):
                    v = ref.neg(v)
                want = ('value', ref.to_norm(v))
            except ref.Undecided:
                continue
            urow += 1
            if a is not None:
                uinputs[f'A{urow}'] = a
            utexts.append('=' + '-' * signs + f'A{urow}')
            umeta.append((signs, an, a, want, 'cell'))
            if a is not None and not isinstance(a, float):
                utexts.append('=' + '-' * signs + subject.lit(a))
                umeta.append((signs, an, a, want, 'literal'))
            if isinstance(a, float):
                utexts.append('=' + '-' * signs + subject.lit(a))
                umeta.append((signs, an, a, want, 'literal'))
    uouts = subject.eval_batch(utexts, uinputs) if utexts else []
    for (signs, an, a, want, how), text, got in zip(umeta, utexts, uouts):
        ctx.event('arithmetic_cases')
        ctx.case(('sign-chain', signs, an, how))
        if not same(got, want):
            report(f'{text} with operand {a!r} ({how}) -> {got}, table gives '
                   f'{want[1]}', {'formula': text, 'operand': repr(a),
                                  'observed': got, 'reference': want[1]},
                   group=f'sign-chain:{signs}:{an}:{how}')

    # ---- D. function names: case-insensitive, _xlfn. prefix -----------------------
    texts, canon = [], []
    for fname in sorted(F):
        if fname in SKIP or fname not in catalog.EX or fname.startswith(
                'OP_'):
            continue
        ex = catalog.EX[fname]
        if any(isinstance(a, list) for a in ex) or not mine():
            continue
        args = ','.join(('-' + subject.lit(-a)) if (
            isinstance(a, (int, float)) and not isinstance(a, bool) and a < 0)
            else subject.lit(a) for a in ex)
        variants = [fname.lower(), fname.title(),
                    ''.join(rng.choice([c.lower(), c.upper()])
                            for c in fname),
                    '_xlfn.' + fname, '_XLFN.' + fname.lower(),
                    '_xlfn.' + fname.title()]
        texts.append(f'={fname}({args})')
        canon.append(None)
        for v in variants:
            texts.append(f'={v}({args})')
            canon.append(len(texts) - 1 - (variants.index(v) + 1))
    outs = subject.eval_batch(texts) if texts else []
    for i, (text, c) in enumerate(zip(texts, canon)):
        if c is None:
            continue
        ctx.event('name_lookup_cases')
        ctx.case(('name', text.split('(')[0][:12]))
        if not same(outs[i], outs[c]):
            report(f'{text} -> {outs[i]}, {texts[c]} -> {outs[c]}',
                   {'formula': text, 'observed': outs[i],
                    'canonical_formula': texts[c], 'canonical': outs[c]},
                   group='name-lookup:' + ('xlfn' if 'xlfn' in text.lower()
                                           else 'case'),
                   monitor='name-lookup')

    # ---- E. functions registered by the user during the run -------------------------
    if sh == 0:
        @xl.register()
        @xl.validate_args
        def VERIF_TRIPLE(x: T.XlNumber) -> T.XlNumber:
            return x * 3

        @xl.register('VERIF_SHOUT')
        @xl.validate_args
        def shout(t: T.XlText, n_: T.XlNumber = 1) -> T.XlText:
            return str(t).upper() * int(n_)

        cells = {'A1': '2', 'A2': True, 'A4': '=1/0', 'A5': 'abc',
                 'B1': '=VERIF_TRIPLE(A1)', 'B2': '=verif_triple(A2)',
                 'B3': '=VERIF_TRIPLE(A3)', 'B4': '=VERIF_TRIPLE(A4)',
                 'B5': '=VERIF_TRIPLE(A5)', 'B6': '=_xlfn.VERIF_TRIPLE(2.5)',
                 'C1': '=VERIF_SHOUT("ab",A1)', 'C2': '=VERIF_SHOUT(12)',
                 'C3': '=VERIF_SHOUT("x","q")'}
        model = subject.compile_dict(cells)
        ev = Evaluator(model)            # created AFTER the registration
        expect = {'B1': ('num', 6.0), 'B2': ('num', 3.0), 'B3': ('num', 0.0),
                  'B4': ('err', '#DIV/0!'), 'B5': ('err', '#VALUE!'),
                  'B6': ('num', 7.5), 'C1': ('text', 'ABAB'),
                  'C2': ('text', '12'), 'C3': ('err', '#VALUE!')}
        for a, want in expect.items():
            got = subject.outcome_of(lambda: ev.evaluate('Sheet1!' + a))
            ctx.event('user_function_cases')
            ctx.case(('user-function', a))
            if got != ('value', want):
                report(f'user function: {cells[a]} -> {got}, expected '
                       f'{want}', {'formula': cells[a], 'observed': got,
                                   'expected': want},
                       group='user-function:' + a, monitor='user-functions')
        # the same name registered again with ANOTHER parameter list: an
        # evaluator created afterwards uses the new function
        @xl.register('VERIF_TRIPLE')
        @xl.validate_args
        def triple2(x: T.XlNumber, factor: T.XlNumber = 3) -> T.XlNumber:
            return x * factor

        @xl.register('VERIF_SHOUT')
        @xl.validate_args
        def shout2(n_: T.XlNumber, t: T.XlText = 'z') -> T.XlText:
            return str(t).upper() * int(n_)

        cells2 = {'A1': '2', 'A2': True, 'B1': '=VERIF_TRIPLE(A1,5)',
                  'B2': '=VERIF_TRIPLE(A2)', 'B3': '=VERIF_TRIPLE(A1,"2")',
                  'C1': '=VERIF_SHOUT(A1,"ab")', 'C2': '=VERIF_SHOUT("3")'}
        ev2 = Evaluator(subject.compile_dict(cells2))
        expect2 = {'B1': ('num', 10.0), 'B2': ('num', 3.0),
                   'B3': ('num', 4.0), 'C1': ('text', 'ABAB'),
                   'C2': ('text', 'ZZZ')}
        for a, want in expect2.items():
            got = subject.outcome_of(lambda: ev2.evaluate('Sheet1!' + a))
            ctx.event('user_function_cases')
            ctx.case(('user-function-reregistered', a))
            if got != ('value', want):
                report(f're-registered user function: {cells2[a]} -> {got}, '
                       f'expected {want}', {'formula': cells2[a],
                                            'observed': got,
                                            'expected': want},
                       group='user-function-rereg:' + a,
                       monitor='user-functions')
        # a user function with typed VARIADIC numbers where the position
        # matters: every spelling of 0 in a middle slot is the number 0
        import typing

        @xl.register('VERIF_POLY')
        @xl.validate_args
        def poly(x: T.XlNumber, *coefficients: typing.Tuple[T.XlNumber]
                 ) -> T.XlNumber:
            total = 0.0
            for k, c in enumerate(coefficients):
                total += float(c) * float(x) ** k
            return total
        want_poly = 5.0 + 0.0 * 2 + 7.0 * 4          # coefficients 5, 0, 7
        for sname, zero in (('0', 0), ('0.0', 0.0), ('text 0', '0'),
                            ('FALSE', False), ('blank None', None),
                            ('Blank', T.BLANK), ('Number 0', T.Number(0))):
            got = monitors.call_outcome(F['VERIF_POLY'], 2, 5, zero, 7)
            ctx.event('user_function_cases')
            ctx.case(('user-function-variadic', sname))
            if not same(got, ('value', ('num', want_poly))):
                report(f'VERIF_POLY(2, 5, {zero!r}, 7) -> {got}, expected '
                       f'{want_poly} (the zero spelt as {sname})',
                       {'function': 'VERIF_POLY', 'zero': repr(zero),
                        'observed': got}, group='user-variadic:' + sname,
                       monitor='user-functions')
        evp = Evaluator(subject.compile_dict(
            {'A1': 5, 'A3': 7, 'B1': '=VERIF_POLY(2,A1,A2,A3)',
             'B2': '=VERIF_POLY(2,A1,0,A3)', 'B3': '=VERIF_POLY(2,A1,FALSE,A3)'}))
        for a in ('B1', 'B2', 'B3'):
            got = subject.outcome_of(lambda: evp.evaluate('Sheet1!' + a))
            ctx.event('user_function_cases')
            ctx.case(('user-function-variadic-formula', a))
            if not same(got, ('value', ('num', want_poly))):
                report(f'user function with variadic numbers, cell {a} -> '
                       f'{got}, expected {want_poly} (A2 is empty)',
                       {'cell': a, 'observed': got},
                       group='user-variadic-formula:' + a,
                       monitor='user-functions')
        xl.FUNCTIONS['VERIF_TRIPLE'] = VERIF_TRIPLE
        for spelled, want in ((2, 6.0), ('2', 6.0), (True, 3.0), (None, 0.0),
                              (numpy.float64(2.5), 7.5), (T.Text('4'), 12.0)):
            got = monitors.call_outcome(F['VERIF_TRIPLE'], spelled)
            ctx.event('user_function_cases')
            ctx.case(('user-function-lib', repr(spelled)))
            if not same(got, ('value', ('num', want))):
                report(f'VERIF_TRIPLE({spelled!r}) -> {got}, expected {want}',
                       {'arg': repr(spelled), 'observed': got},
                       group='user-function-lib', monitor='user-functions')
