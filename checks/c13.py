"""C13 — an extracted sub-model computes the same values as the full model.

Events: Evaluator(extracted).evaluate(f) and Evaluator(original).evaluate(f) for
every focus element, before and after the same input changes; key set of
extracted.cells; snapshot of the original before/after extract.
Oracle (statement): equal values, also equal to the reference interpreter;
extracted.cells contains the reference transitive closure of the focus; the
original is unchanged.
"""
import itertools
import os

from vlib import bootstrap, build, gen, monitors, ref, subject

PROPERTY = 'C13'
RULE = ('acyclic models (dependency depth 0-5, ranges, IF, 1-2 sheets; names '
        'for cells and ranges through the xlsx path) x ALL non-empty focus '
        'subsets of <= 5 candidate cells/names (sampled beyond) x 0-4 input '
        'changes applied to both models x extraction before / after the '
        'original has been evaluated.  non-trivial = focus with a member at '
        'dependency depth >= 2 or depending on a range or a name; distinct by '
        '(model, focus, changes)')
ASSUMPTIONS = [
    'the oracle is the original model (statement) plus the reference '
    'interpreter as common-mode guard',
    'input changes are applied to inputs inside the closure of the focus',
]
FLOORS = {'extractions': 300, 'focus_evaluations': 1000, 'depth2_focus': 50,
          'range_focus': 30, 'name_focus': 10, 'after_evaluation': 50,
          'with_changes': 100, 'changes_by_name': 5,
          'derived_originals': 100, 'frozen_formula_models': 50,
          'wide_range_evaluations': 40, 'changes_before_extraction': 100,
          'extractions_before_build_code': 30,
          'chained_extraction_evaluations': 40,
          'one_shot_focus_iterables': 50, 'spelling_extractions': 40}
ANCHOR_FUNCS = {'xlcalculator/model.py': ['ModelCompiler.extract']}
TIMEOUT = {'quick': 600, 'thorough': 3000}


def shards(tier):
    return 16


def snapshot(model):
    cells = {a: (monitors.norm(c.value) if c.formula is None else
                 ('formula', c.formula.formula)) for a, c in
             model.cells.items()}
    return (cells, sorted(model.defined_names), sorted(model.formulae),
            sorted(model.ranges))


def run_wide(ctx):
    """ranges that cross from single-letter into double-letter columns
    (X..AC, B..AB): column order is not the order of the letters"""
    from xlcalculator import Evaluator, ModelCompiler
    rng = ctx.rng
    for trial in range(6):
        c1 = rng.choice([2, 20, 24, 25, 26])
        c2 = rng.choice([27, 28, 29, 30, 53])
        rows = rng.randint(1, 3)
        cells, vals = {}, {}
        for r in range(1, rows + 1):
            for c in range(c1, c2 + 1):
                a = f'Data!{ref.col_letters(c)}{r}'
                if rng.random() < 0.2 and c > c1:
                    # a formula member whose precedent lies outside the range
                    cells[a] = '=Data!A9*2'
                    vals[a] = None
                else:
                    vals[a] = cells[a] = rng.randint(1, 50)
        cells['Data!A9'] = 7
        rg = f'Data!{ref.col_letters(c1)}1:{ref.col_letters(c2)}{rows}'
        cells['Sheet1!A1'] = f'=SUM({rg})'
        cells['Sheet1!A2'] = f'=Sheet1!A1+COUNT({rg})'
        try:
            original = subject.compile_dict(cells)
            extracted = ModelCompiler.extract(original, ['Sheet1!A2'])
        except Exception as e:  # noqa
            ctx.fail(f'extract over the wide range {rg} raised {e!r}',
                     {'cells': cells}, monitor='extract-raises',
                     group='wide-raises')
            continue
        ev_o, ev_x = Evaluator(original), Evaluator(extracted)
        a9 = 7
        for step in range(3):
            if step:
                a = rng.choice([k for k, v in vals.items() if v is not None])
                v = rng.randint(100, 200)
                ev_o.set_cell_value(a, v)
                ev_x.set_cell_value(a, v)
                vals[a] = v
                if step == 2:
                    a9 = rng.randint(2, 9)
                    ev_o.set_cell_value('Data!A9', a9)
                    ev_x.set_cell_value('Data!A9', a9)
            total = sum(v if v is not None else a9 * 2 for v in vals.values())
            want = ('value', ('num', float(total + len(vals))))
            go = subject.outcome_of(lambda: ev_o.evaluate('Sheet1!A2'))
            gx = subject.outcome_of(lambda: ev_x.evaluate('Sheet1!A2'))
            ctx.event('focus_evaluations')
            ctx.event('wide_range_evaluations')
            ctx.case(('wide', c1, c2, rows, step))
            if gx != go or go != want:
                ctx.fail(f'focus Sheet1!A2 over {rg}: extracted model -> '
                         f'{gx}, original -> {go}, reference {want[1]} '
                         f'(step {step})',
                         {'cells': cells, 'range': rg, 'extracted': gx,
                          'original': go, 'reference': want[1],
                          'extracted_cells': sorted(extracted.cells)[:80]},
                         monitor='same-values', group='wide-range')
                break


def run_long_formula(ctx):
    """a formula with hundreds of operands (well below Excel's 8192
    characters), in focus or reached through a cell reference or through a
    range that brings in several formula cells at once: extraction copies
    cells, it must not depend on how deep a formula's syntax tree is"""
    from xlcalculator import Evaluator, ModelCompiler
    for n_terms in (150, 300, 600):
        for reach in ('cell', 'focus', 'range', 'range-other-sheet'):
            long_ = '=' + '+'.join(f'Items!A{i}'
                                   for i in range(1, n_terms + 1))
            cells = {f'Items!A{i}': i for i in range(1, n_terms + 1)}
            total = n_terms * (n_terms + 1) // 2
            if reach == 'cell':
                cells['Sheet1!B1'] = long_
                cells['Sheet1!B2'] = '=B1*2'
                focus, want0, per_unit = 'Sheet1!B2', 2 * total, 2
            elif reach == 'focus':
                cells['Sheet1!B1'] = long_
                focus, want0, per_unit = 'Sheet1!B1', total, 1
            else:
                sh_ = 'Sheet1' if reach == 'range' else 'Ledger'
                cells[f'{sh_}!B1'] = long_
                cells[f'{sh_}!B2'] = '=Items!A1*2'
                cells[f'{sh_}!B3'] = long_.replace('+', '-', 1)
                cells['Sheet1!C1'] = f'=SUM({sh_}!B1:B3)'
                focus, per_unit = 'Sheet1!C1', 2
                want0 = total + 2 + (total - 4)
            ctx.event('extractions')
            ctx.event('long_formula_extractions')
            ctx.case(('long-formula', n_terms, reach))
            try:
                original = subject.compile_dict(cells)
                extracted = ModelCompiler.extract(original, [focus])
                ev_o, ev_x = Evaluator(original), Evaluator(extracted)
                for step in range(2):
                    if step:
                        ev_o.set_cell_value('Items!A7', 1007)
                        ev_x.set_cell_value('Items!A7', 1007)
                    want = ('value', ('num', float(
                        want0 + (1000 * per_unit if step else 0))))
                    go = subject.outcome_of(lambda: ev_o.evaluate(focus))
                    gx = subject.outcome_of(lambda: ev_x.evaluate(focus))
                    ctx.event('focus_evaluations')
                    if gx != go or go != want:
                        ctx.fail(f'focus {focus} ({reach}) over a formula of '
                                 f'{n_terms} operands: extracted -> '
                                 f'{str(gx)[:160]}, original -> '
                                 f'{str(go)[:160]}, reference {want[1]}',
                                 {'operands': n_terms, 'reached_through':
                                  reach, 'extracted': str(gx)[:300],
                                  'original': str(go)[:300]},
                                 monitor='same-values',
                                 group='long-formula:' + reach)
                        break
            except RecursionError as e:
                ctx.fail(f'extract of a model holding a formula of {n_terms} '
                         f'operands (reached through: {reach}) raised '
                         f'RecursionError',
                         {'operands': n_terms, 'reached_through': reach,
                          'error': str(e)[:100]},
                         monitor='extract-raises',
                         group='long-formula-raises:' + reach)


def run_sparse(ctx):
    """an oversized, sparse column range: entries, a long run of empty cells,
    more entries (constants and formulas).  Whatever the full model makes of
    the gap, the extract computes the same, also after changes behind it"""
    from xlcalculator import Evaluator, ModelCompiler
    rng = ctx.rng
    for gap in (60, 101, 121, 150):
        cells = {'Ledger!D1': 3}
        for r in range(1, 6):
            cells[f'Ledger!B{r}'] = r
        start = 6 + gap
        for r in range(start, start + 4):
            cells[f'Ledger!B{r}'] = 100 + r if r % 2 else '=Ledger!D1*10'
        last = start + 10
        cells['Calc!A1'] = f'=SUM(Ledger!B1:B{last})'
        cells['Calc!A2'] = f'=MAX(Ledger!B1:B{last})+Calc!A1'
        try:
            original = subject.compile_dict(cells, default_sheet='Calc')
            extracted = ModelCompiler.extract(original, ['Calc!A2'])
        except Exception as e:  # noqa
            ctx.fail(f'extract over a sparse range (gap {gap}) raised {e!r}',
                     {'cells': cells}, monitor='extract-raises',
                     group='sparse-raises')
            continue
        ev_o, ev_x = Evaluator(original), Evaluator(extracted)
        for step in range(3):
            if step == 1:
                for e in (ev_o, ev_x):
                    e.set_cell_value('Ledger!D1', 9)
            if step == 2:
                for e in (ev_o, ev_x):
                    e.set_cell_value(f'Ledger!B{start}', 5000)
            go = subject.outcome_of(lambda: ev_o.evaluate('Calc!A2'))
            gx = subject.outcome_of(lambda: ev_x.evaluate('Calc!A2'))
            ctx.event('focus_evaluations')
            ctx.event('sparse_range_evaluations')
            ctx.case(('sparse', gap, step))
            if gx != go:
                ctx.fail(f'focus Calc!A2 over Ledger!B1:B{last} (entries, '
                         f'{gap} empty cells, entries; step {step}): '
                         f'extracted -> {gx}, original -> {go}',
                         {'cells': cells, 'gap': gap, 'extracted': gx,
                          'original': go,
                          'extracted_cells': len(extracted.cells)},
                         monitor='same-values', group=f'sparse:{gap}')
                break


def run_chained(ctx):
    """an extract of an extract, with the named inputs re-assigned (by address
    and by name) between the two extractions"""
    from xlcalculator import Evaluator, ModelCompiler
    rng = ctx.rng
    out = os.path.join(bootstrap.VERIF, 'out', 'c13')
    os.makedirs(out, exist_ok=True)
    for trial in range(4):
        rate, base = rng.choice([0.1, 0.5, 2]), rng.choice([200, 40, 7])
        cells = {('Sheet1', 1, 1): rate, ('Sheet1', 1, 2): base,
                 ('Sheet1', 1, 3): 5,
                 ('Sheet1', 2, 1): ('f', ('bin', '*', ('name', 'base'),
                                          ('name', 'rate'))),
                 ('Sheet1', 2, 2): ('f', ('bin', '+', ('ref', None, 2, 1,
                                                       False, False),
                                          ('call', 'SUM', [('name', 'blk')])))}
        names = {'rate': ('ref', 'Sheet1', 1, 1, True, True),
                 'base': ('ref', 'Sheet1', 1, 2, True, True),
                 'blk': ('rng', 'Sheet1', 1, 1, 1, 3, (True,) * 4)}
        wb = ref.Workbook(cells, names)
        focus = ['Sheet1!B2'] if trial % 2 == 0 else ['Sheet1!B2', 'rate']
        try:
            m0 = build.model_from_xlsx(wb, os.path.join(
                out, f'chain{ctx.shard}.xlsx'))
            x1 = ModelCompiler.extract(m0, list(focus))
            models = {'full': m0, 'extract': x1}
            evs = {k: Evaluator(v) for k, v in models.items()}

            def assign(target, key, v):
                for e in evs.values():
                    e.set_cell_value(target, v)
                wb.cells[key] = v
            steps = [('Sheet1!A1', ('Sheet1', 1, 1), rng.choice([0.25, 3])),
                     ('base', ('Sheet1', 1, 2), rng.choice([1000, 12]))]
            rng.shuffle(steps)
            assign(*steps[0])
            x2 = ModelCompiler.extract(x1, list(focus))
            models['extract of the extract'] = x2
            evs['extract of the extract'] = Evaluator(x2)
            for phase in ('after the first change', 'after the second'):
                if phase == 'after the second':
                    assign(*steps[1])
                want = ('value', ref.to_norm(wb.value(('Sheet1', 2, 2))))
                for label, e in evs.items():
                    got = subject.outcome_of(lambda: e.evaluate('Sheet1!B2'))
                    ctx.event('focus_evaluations')
                    ctx.event('chained_extraction_evaluations')
                    ctx.case(('chained', trial, label, phase))
                    if got != want:
                        ctx.fail(f'Sheet1!B2 in the {label} ({phase}: '
                                 f'{steps}) -> {got}, reference {want[1]}',
                                 {'cells': build.dict_of(ref.Workbook(
                                     {k: v for k, v in cells.items()})),
                                  'names': {n: build.name_target(t)
                                            for n, t in names.items()},
                                  'focus': focus, 'steps': steps,
                                  'model': label, 'observed': got,
                                  'reference': want[1]},
                                 monitor='same-values',
                                 group=f'chained:{label}')
        except Exception as e:  # noqa
            ctx.fail(f'chained extraction raised {type(e).__name__}: '
                     f'{str(e)[:200]}', {'focus': focus},
                     monitor='extract-raises', group='chained-raises')


def run_spellings(ctx):
    """the same thing spelt differently in different formulas of one workbook:
    a defined name in another letter case than its definition, the same
    formula text on several sheets (unqualified references mean the sheet of
    the formula), a sheet name in another case.  However the full model reads
    a spelling, the extract reads it the same way: for every focus set, every
    focused cell evaluates to the same outcome in both, before and after input
    changes"""
    import os
    from vlib import bootstrap, xlsxw
    from xlcalculator import Evaluator, ModelCompiler
    rng = ctx.rng
    out = os.path.join(bootstrap.VERIF, 'out', 'c13')
    os.makedirs(out, exist_ok=True)
    books = []
    # (a) names in other letter case
    sb = xlsxw.SheetBuilder()
    sb.put_value('Calc', 1, 1, 100)
    sb.put_value('Calc', 2, 1, 7)
    sb.put_value('Rates', 1, 1, 0.2)
    sb.put_value('Rates', 1, 2, 5)
    sb.names = [('Rate', 'Rates!$A$1'), ('Bonus', 'Rates!$A$2'),
                # names spelt like a column and a row (beyond column XFD, so
                # they are names, not addresses), and a named range whose
                # members are also reached by plain address
                ('YTD1', 'Rates!$A$1:$A$2'), ('ZZZ9', 'Rates!$A$2'),
                ('Pair', 'Rates!$A$1:$A$2')]
    for i, f in enumerate(['=A1*Rate', '=A1*rate', '=B1*RATE+Bonus', '=A3+A4',
                           '=A1*Rate+bonus', '=SUM(A3:A7)+BONUS',
                           '=SUM(YTD1)*ZZZ9', '=Rates!A1*B1',
                           '=SUM(Rates!A1:A2)+A1', '=ZZZ9+Rates!A2'], start=3):
        sb.put_formula('Calc', 1, i, f)
    books.append(('names in another letter case', sb,
                  [f'Calc!A{i}' for i in range(3, 13)],
                  ['Calc!A1', 'Calc!B1', 'Rates!A1', 'Rates!A2']))
    # (b) the same formula texts on sheets laid out alike
    sb = xlsxw.SheetBuilder()
    focus_b, inputs_b = [], []
    for n, sh_ in enumerate(('Q1', 'Q2', 'Q3', 'Plan')):
        for r in (2, 3, 4):
            sb.put_value(sh_, 2, r, (n + 1) * r)
            sb.put_value(sh_, 3, r, 10 + n + r)
            sb.put_formula(sh_, 4, r, f'=B{r}*C{r}')
            inputs_b += [f'{sh_}!B{r}', f'{sh_}!C{r}']
        sb.put_formula(sh_, 4, 5, '=D2+D3+D4')
        sb.put_formula(sh_, 4, 6, '=SUM(D2:D4)-D5')
        focus_b += [f'{sh_}!D5', f'{sh_}!D6', f'{sh_}!D3']
    sb.put_formula('Year', 1, 1, '=Q1!D5+Q2!D5+Q3!D5')
    focus_b.append('Year!A1')
    books.append(('same formula text on several sheets', sb, focus_b,
                  inputs_b))
    # (c) sheet names that need quoting, one with an apostrophe of its own
    sb = xlsxw.SheetBuilder()
    for sh_ in ("Bob's Data", 'My Data', 'a-b'):
        sb.put_value(sh_, 1, 1, 10)
        sb.put_value(sh_, 1, 2, 20)
        sb.put_formula(sh_, 1, 3, '=A1+A2')
    sb.put_formula('Calc', 1, 1, "='Bob''s Data'!A1+1")
    sb.put_formula('Calc', 1, 2, "='Bob''s Data'!$A$2*2+'My Data'!A1")
    sb.put_formula('Calc', 1, 3, "='Bob''s Data'!A3+'a-b'!A3")
    sb.put_formula('Calc', 1, 4, "=SUM('Bob''s Data'!A1:A2)+'a-b'!$A1")
    books.append(('quoted sheet names', sb,
                  ['Calc!A1', 'Calc!A2', 'Calc!A3', 'Calc!A4',
                   "Bob's Data!A3"],
                  ["Bob's Data!A1", "Bob's Data!A2", 'My Data!A1',
                   'a-b!A1', 'a-b!A2']))
    for label, sb, focus_cells, inputs in books:
        path = os.path.join(out, f'spell{ctx.shard}.xlsx')
        sb.write(path)
        try:
            original = ModelCompiler().read_and_parse_archive(path)
        finally:
            try:
                os.remove(path)
            except OSError:
                pass
        sets_ = [[c] for c in focus_cells] + [
            rng.sample(focus_cells, 2) for _ in range(4)] + [focus_cells]
        for focus in sets_:
            ctx.event('extractions')
            ctx.event('spelling_extractions')
            ctx.case(('spellings', label, tuple(focus)))
            try:
                extracted = ModelCompiler.extract(original, focus)
            except Exception as e:  # noqa
                ctx.fail(f'extract(focus={focus}) from the workbook "{label}" '
                         f'raised {type(e).__name__}: {str(e)[:160]}',
                         {'focus': focus, 'workbook': label},
                         monitor='extract-raises', group='spellings-raises')
                continue
            ev_o, ev_x = Evaluator(original), Evaluator(extracted)
            for step in range(3):
                if step:
                    a = rng.choice(inputs)
                    v = rng.choice([3, 11, 0.5, 40])
                    ev_o.set_cell_value(a, v)
                    if a in extracted.cells:
                        try:
                            ev_x.set_cell_value(a, v)
                        except Exception as e:  # noqa
                            ctx.fail(f'workbook "{label}", focus {focus}: '
                                     f'set_cell_value({a!r}, {v}) on the '
                                     f'extracted model raised '
                                     f'{type(e).__name__}: {str(e)[:120]}',
                                     {'workbook': label, 'focus': focus,
                                      'address': a},
                                     monitor='extract-raises',
                                     group='spellings-set-raises')
                            break
                bad = []
                for c in focus:
                    go = subject.outcome_of(lambda: ev_o.evaluate(c))
                    gx = subject.outcome_of(lambda: ev_x.evaluate(c))
                    ctx.event('focus_evaluations')
                    if go != gx:
                        bad.append((c, go, gx))
                if bad:
                    ctx.fail(f'workbook "{label}", focus {focus}, after {step} '
                             f'input changes: (cell, original, extracted) = '
                             f'{bad[:3]}',
                             {'workbook': label, 'focus': focus,
                              'differences': bad[:8]},
                             monitor='same-values',
                             group='spellings:' + label[:12])
                    break


def run(ctx):
    from xlcalculator import Evaluator, ModelCompiler
    rng = ctx.rng
    if ctx.shard in (4, 8) or ctx.tier == 'thorough':
        run_spellings(ctx)
    if ctx.shard in (1, 5, 9, 13) or ctx.tier == 'thorough':
        run_chained(ctx)
    if ctx.shard in (2, 6) or ctx.tier == 'thorough':
        run_long_formula(ctx)
    if ctx.shard in (3, 7) or ctx.tier == 'thorough':
        run_sparse(ctx)
    if ctx.shard in (0, 4, 8, 12) or ctx.tier == 'thorough':
        run_wide(ctx)
    thorough = ctx.tier == 'thorough'
    out = os.path.join(bootstrap.VERIF, 'out', 'c13')
    os.makedirs(out, exist_ok=True)
    n_models = (3000 if thorough else 128) // ctx.nshards
    for mi in range(n_models):
        sheets = ('Sheet1',) if rng.random() < 0.6 else ('Sheet1', 'Data')
        m = gen.gen_model(rng, n_inputs=rng.randint(2, 6),
                          n_formulas=rng.randint(2, 8), sheets=sheets,
                          max_depth=5)
        names = {}
        use_names = rng.random() < 0.35
        if use_names:
            k = rng.choice(m.inputs if rng.random() < 0.7 else m.order)
            names['NmCell'] = ('ref', k[0], k[1], k[2], True, True)
            s0 = sheets[0]
            rows = max(r for (s, c, r) in m.inputs if s == s0)
            names['NmRange'] = ('rng', s0, 1, 1, 2, rows, (True,) * 4)
            # a formula that uses the names
            key = (s0, 6, 1)
            m.cells[key] = ('f', ('bin', '+', ('call', 'SUM', [
                ('name', 'NmRange')]), ('name', 'NmCell')))
            m.order.append(key)
            m.formulas.append(key)
            m.deps[key] = {k} | {(s0, c, r) for c in (1, 2)
                                 for r in range(1, rows + 1)}
            m.depth[key] = 1 + max(m.depth.get(d, 0) for d in m.deps[key])
            # a second range name over FORMULA cells (their precedents are
            # reachable only through the name)
            frows = sorted(r for (s_, c, r) in m.formulas
                           if s_ == s0 and c == 4)
            if frows:
                top = min(3, max(frows))
                names['NmForm'] = ('rng', s0, 4, 1, 4, top, (True,) * 4)
                key2 = (s0, 6, 2)
                m.cells[key2] = ('f', ('bin', '*', ('call', 'SUM', [
                    ('name', 'NmForm')]), ('lit', 2, '2')))
                m.order.append(key2)
                m.formulas.append(key2)
                m.deps[key2] = {(s0, 4, r) for r in range(1, top + 1)
                                if (s0, 4, r) in m.cells}
                m.depth[key2] = 1 + max([m.depth.get(d, 0)
                                         for d in m.deps[key2]] or [0])
            m.names = names
        # two direct range references with the SAME coordinates on different
        # sheets, and formula cells inside one of them
        if len(sheets) == 2:
            s0_, s1_ = sheets
            rows0 = max([r for (s_, c, r) in m.inputs if s_ == s0_] or [0])
            rows1 = max([r for (s_, c, r) in m.inputs if s_ == s1_] or [0])
            top = min(rows0, rows1)
            if top >= 1:
                key3 = (s0_, 7, 1)
                rg0 = ('rng', s0_, 1, 1, 2, top, gen.FALSE4)
                rg1 = ('rng', s1_, 1, 1, 2, top, gen.FALSE4)
                m.cells[key3] = ('f', ('bin', '+', ('call', 'SUM', [rg0]),
                                       ('call', 'SUM', [rg1])))
                m.order.append(key3)
                m.formulas.append(key3)
                m.deps[key3] = {(s_, c, r) for s_ in sheets for c in (1, 2)
                                for r in range(1, top + 1)
                                if (s_, c, r) in m.cells}
                m.depth[key3] = 1
        wb = m.workbook()
        try:
            for k in m.order:
                wb.value(k)
        except ref.Undecided:
            ctx.event('skipped_undecided')
            continue

        def compile_(build_code=True):
            if use_names:
                build.write_xlsx(wb, os.path.join(out, f's{ctx.shard}.xlsx'),
                                 list(sheets))
                try:
                    return ModelCompiler().read_and_parse_archive(
                        os.path.join(out, f's{ctx.shard}.xlsx'),
                        build_code=build_code)
                finally:
                    try:
                        os.remove(os.path.join(out, f's{ctx.shard}.xlsx'))
                    except OSError:
                        pass
            return ModelCompiler().read_and_parse_dict(
                build.dict_of(wb), default_sheet=sheets[0],
                build_code=build_code)
        candidates = list(m.formulas[-5:])
        if use_names:
            candidates = candidates[-3:] + ['NmCell', 'NmRange']
            if 'NmForm' in names:
                candidates = candidates[-4:] + ['NmForm']
        subsets = []
        for r_ in range(1, len(candidates) + 1):
            subsets.extend(itertools.combinations(candidates, r_))
        if not thorough and len(subsets) > 12:
            subsets = rng.sample(subsets, 12)
        for focus in subsets:
            after_eval = rng.random() < 0.5
            prov = rng.choice(['compiled', 'compiled', 'compiled', 'json',
                               'deepcopy', 'extracted'])
            # extraction may also precede compilation: build_code=False, the
            # code of both models is built after the extraction
            late_code = rng.random() < 0.15
            if late_code:
                prov, after_eval = 'compiled', False
                ctx.event('extractions_before_build_code')
            try:
                # "any model": also one restored from JSON, deep-copied, or
                # itself the result of an extraction with everything in focus
                original = build.derive(compile_(not late_code), prov,
                                        os.path.join(out,
                                                     f's{ctx.shard}.json'))
                if prov != 'compiled':
                    ctx.event('derived_originals')
            except Exception as e:  # noqa
                ctx.fail(f'building the model raised {e!r}',
                         {'cells': build.dict_of(wb)}, monitor='construction',
                         group='build')
                break
            # a formula kept for reference only (XLFormula.evaluate False):
            # the cell answers its stored value, in the extract as well
            frozen = None
            if rng.random() < 0.3:
                fk = rng.choice(m.formulas)
                fc = original.cells.get(build.addr(fk))
                if fc is not None and fc.formula is not None and \
                        hasattr(fc.formula, 'evaluate'):
                    fc.formula.evaluate = False
                    fc.value = 4242
                    frozen = fk
                    ctx.event('frozen_formula_models')
            ev_o = Evaluator(original)
            # inputs may have been re-assigned BEFORE the extraction as well
            pre = []
            if rng.random() < 0.4:
                for _ in range(rng.randint(1, 2)):
                    pk = rng.choice(m.inputs)
                    pv = rng.choice([21, 22, 23, 0.75, -4])
                    ev_o.set_cell_value(build.addr(pk), pv)
                    pre.append((pk, pv))
                ctx.event('changes_before_extraction')
            if after_eval:
                ctx.event('after_evaluation')
                for k in m.formulas:
                    try:
                        ev_o.evaluate(build.addr(k))
                    except Exception:  # noqa
                        pass
            focus_keys = []
            focus_addrs = []
            for f in focus:
                if isinstance(f, str):
                    focus_addrs.append(f)
                    t = names[f]
                    if t[0] == 'ref':
                        focus_keys.append((t[1], t[2], t[3]))
                    else:
                        focus_keys.extend((t[1], c, r)
                                          for c in range(t[2], t[4] + 1)
                                          for r in range(t[3], t[5] + 1))
                else:
                    focus_addrs.append(build.addr(f))
                    focus_keys.append(f)
            closure = m.closure(focus_keys)
            before = snapshot(original)
            ctx.event('extractions')
            try:
                # the focus may be any iterable of addresses and names
                form = rng.choice(['list', 'list', 'tuple', 'generator',
                                   'iterator', 'dict keys'])
                fa = list(focus_addrs)
                focus_arg = {'list': fa, 'tuple': tuple(fa),
                             'generator': (x for x in fa),
                             'iterator': iter(fa),
                             'dict keys': dict.fromkeys(fa).keys()}[form]
                if form in ('generator', 'iterator'):
                    ctx.event('one_shot_focus_iterables')
                extracted = ModelCompiler.extract(original, focus_arg)
            except Exception as e:  # noqa
                ctx.fail(f'extract(focus={focus_addrs}) raised '
                         f'{type(e).__name__}: {str(e)[:200]} '
                         f'(original evaluated before: {after_eval}; '
                         f'{prov} model)',
                         {'cells': build.dict_of(wb), 'focus': focus_addrs,
                          'original_model': prov,
                          'names': {n: build.name_target(t)
                                    for n, t in names.items()},
                          'after_evaluation': after_eval},
                         monitor='extract-raises',
                         group=f'raises:{type(e).__name__}:{after_eval}')
                continue
            after = snapshot(original)
            if late_code:
                try:
                    original.build_code()
                    extracted.build_code()
                except Exception as e:  # noqa
                    ctx.fail(f'build_code after extract(focus={focus_addrs}) '
                             f'raised {e!r}', {'cells': build.dict_of(wb),
                                               'focus': focus_addrs},
                             monitor='extract-raises', group='late-code')
                    continue
            if before != after:
                ctx.fail(f'extract(focus={focus_addrs}) changed the original '
                         f'model', {'cells': build.dict_of(wb),
                                    'focus': focus_addrs},
                         monitor='original-unchanged', group='orig-changed')
            depth = max(m.depth.get(k, 0) for k in focus_keys)
            has_range = any(
                any(len(m.deps[k]) > 1 and _uses_range(m.cells[k])
                    for k in closure if k in m.cells and
                    build.is_formula(m.cells[k])) for _ in (0,))
            has_name = any(isinstance(f, str) for f in focus) or (
                use_names and (sheets[0], 6, 1) in closure)
            if depth >= 2:
                ctx.event('depth2_focus')
            if has_range:
                ctx.event('range_focus')
            if has_name:
                ctx.event('name_focus')
            # closure containment
            missing = [build.addr(k) for k in sorted(closure)
                       if k in wb.cells and wb.cells[k] is not None
                       and build.addr(k) not in extracted.cells]
            if missing:
                ctx.fail(f'extract(focus={focus_addrs}) lacks cells the focus '
                         f'depends on: {missing[:8]}',
                         {'cells': build.dict_of(wb), 'focus': focus_addrs,
                          'missing': missing,
                          'extracted_cells': sorted(extracted.cells)},
                         monitor='closure-contained',
                         group=f'closure:d{min(depth, 3)}:{has_range}')
            # same values, before and after the same input changes
            changes = []
            inputs_in = [k for k in m.inputs if k in closure]
            for _ in range(rng.randint(0, 4)):
                if inputs_in:
                    changes.append((rng.choice(inputs_in),
                                    rng.choice([0, 1, 2, 3, -1, 0.5, 10])))
            if use_names and names.get('NmCell') and rng.random() < 0.6:
                t = names['NmCell']
                if (t[1], t[2], t[3]) in inputs_in:
                    changes.append(((t[1], t[2], t[3]),
                                    rng.choice([4, 6, 8, 12])))
            if changes:
                ctx.event('with_changes')
            ev_x = Evaluator(extracted)
            wbc = wb.copy()
            for pk, pv in pre:
                wbc.cells[pk] = pv
            if frozen is not None:
                wbc.cells[frozen] = 4242
            rounds = [[]] + [changes]
            bad = False
            for ri, chg in enumerate(rounds):
                for k, v in chg:
                    target = build.addr(k)
                    # through a defined name when the extracted model knows
                    # one for this input
                    for nm, t in names.items():
                        if t[0] == 'ref' and (t[1], t[2], t[3]) == k and \
                                nm in extracted.defined_names and \
                                rng.random() < 0.7:
                            target = nm
                            ctx.event('changes_by_name')
                    ev_o.set_cell_value(target, v)
                    ev_x.set_cell_value(target, v)
                    wbc.cells[k] = v
                for f, fk in zip(focus_addrs, [None] * len(focus_addrs)):
                    if f in ('NmRange', 'NmForm'):
                        continue        # a range name is not a cell to evaluate
                    go = subject.outcome_of(lambda: ev_o.evaluate(f))
                    gx = subject.outcome_of(lambda: ev_x.evaluate(f))
                    ctx.event('focus_evaluations')
                    if f in names:
                        t = names[f]
                        rk = (t[1], t[2], t[3])
                    else:
                        rk = [k for k in focus_keys
                              if build.addr(k) == f][0]
                    try:
                        want = ('value', ref.to_norm(wbc.value(rk)))
                    except ref.Undecided:
                        want = None
                    if gx != go or (want is not None and go != want):
                        bad = True
                        ctx.fail(
                            f'focus {f} (focus given as {form}): extracted '
                            f'model -> {gx}, original '
                            f'-> {go}, reference {want} (focus set '
                            f'{focus_addrs}, changes before extraction '
                            f'{[(build.addr(k_), v_) for k_, v_ in pre]}, '
                            f'changes {chg}, original '
                            f'evaluated before extraction: {after_eval}, '
                            f'{prov} model'
                            + (f', {build.addr(frozen)} holds 4242 with its '
                               f'formula switched off' if frozen else '')
                            + ')',
                            {'cells': build.dict_of(wb),
                             'original_model': prov,
                             'focus': focus_addrs, 'element': f,
                             'changes': [(build.addr(k), v) for k, v in chg],
                             'extracted': gx, 'original': go,
                             'reference': want,
                             'extracted_cells': sorted(extracted.cells)},
                            monitor='same-values',
                            group=f'values:d{min(depth, 3)}:{has_range}:'
                                  f'{ri}:{gx[0]}')
                if bad:
                    break
            nt = (mi, ctx.shard, focus_addrs.__repr__(), len(changes)) \
                if (depth >= 2 or has_range or has_name) else None
            ctx.case(nt)
            if ctx.want_sample() and rng.random() < 0.02:
                ctx.sample({'cells': build.dict_of(wb), 'focus': focus_addrs,
                            'changes': [(build.addr(k), v)
                                        for k, v in changes],
                            'closure_size': len(closure), 'depth': depth})


def _uses_range(cell):
    def walk(a):
        if a[0] in ('rng',):
            return True
        if a[0] == 'name':
            return a[1] in ('NmRange', 'NmForm')
        if a[0] == 'bin':
            return walk(a[2]) or walk(a[3])
        if a[0] in ('neg', 'par'):
            return walk(a[1])
        if a[0] == 'call':
            return any(walk(x) for x in a[2])
        return False
    return walk(cell[1])
