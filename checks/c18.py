"""C18 — date serials and date functions follow the 1900 date system.

Events: every call of the date functions through xl.FUNCTIONS (and formulas for
date arithmetic); contracts on utils.number_to_datetime / datetime_to_number
(round trip, monotonicity with the previous value in hand).
Oracle: datetime.date arithmetic.  serial n >= 61 <-> 1899-12-30 + n,
1 <= n <= 59 <-> 1899-12-31 + n, fraction = time of day.
"""
import datetime

from vlib import monitors, subject

PROPERTY = 'C18'
RULE = ('thorough: EVERY whole serial 1..2958465 through YEAR, MONTH, DAY, '
        'WEEKDAY x 10 return types, ISOWEEKNUM, the DATE round trip and the '
        'serial<->date conversions (exhaustive block); quick: serials 1-800, '
        '+-400 around every century and leap boundary, the last 800, stride '
        '997 elsewhere; both: (year, month, day) triples with month/day in '
        '-40..60, month offsets -1300..1300 for EDATE/EOMONTH, ordered pairs '
        'of sampled dates x DATEDIF units x YEARFRAC bases, times of day.  '
        'distinct non-trivial = distinct (function, month, leap/non-leap, '
        'boundary class, outcome class)')
ASSUMPTIONS = [
    'serial 60 (the fictitious 1900-02-29) is not judged',
    '30/360 bases compared only where neither day of month is 29-31 nor the '
    'last day of February; basis 1 to 1e-3 only for pairs inside one '
    'non-leap year (actual/actual conventions differ elsewhere, also on '
    'whole-year spans)',
    'DATEDIF M/Y = complete months/years by calendar arithmetic',
]
FLOORS = {'serial_field_calls': 100000, 'date_constructor_calls': 2000,
          'month_move_calls': 2000, 'pair_calls': 2000,
          'early_1900_cases': 100, 'timed_serial_field_cases': 100,
          'end_of_range_month_moves': 20, 'fractional_date_parts': 50,
          'feb28_month_moves': 100}
ANCHOR_FUNCS = {
    'xlcalculator/xlfunctions/date.py': ['DATE', 'YEAR', 'MONTH', 'DAY',
                                         'WEEKDAY', 'ISOWEEKNUM', 'EDATE',
                                         'EOMONTH', 'DAYS', 'DATEDIF',
                                         'YEARFRAC'],
    'xlcalculator/xlfunctions/utils.py': ['number_to_datetime',
                                          'datetime_to_number'],
}
TIMEOUT = {'quick': 600, 'thorough': 3600}

MAXSERIAL = 2958465
D0 = datetime.date(1899, 12, 30)
WD_TYPES = [None, 1, 2, 3, 11, 12, 13, 14, 15, 16, 17]


def shards(tier):
    return 16


def date_of(n):
    if n >= 61:
        return D0 + datetime.timedelta(days=n)
    if 1 <= n <= 59:
        return D0 + datetime.timedelta(days=n + 1)
    raise ValueError(n)


def serial_of(d):
    n = (d - D0).days
    return n if n >= 61 else n - 1


def weekday_ref(d, t):
    wd = d.weekday()                      # Monday = 0
    if t in (None, 1, 17):
        return (wd + 1) % 7 + 1           # Sunday = 1
    if t in (2, 11):
        return wd + 1
    if t == 3:
        return wd
    first = t - 11                        # 12 -> Tuesday(1) first ...
    return (wd - first) % 7 + 1


def is_leap(y):
    return y % 4 == 0 and (y % 100 != 0 or y % 400 == 0)


def last_dom(y, m):
    if m == 12:
        return 31
    return (datetime.date(y, m + 1, 1) - datetime.timedelta(days=1)).day


def add_months(d, k):
    t = d.year * 12 + (d.month - 1) + k
    y, m = divmod(t, 12)
    m += 1
    if not (1 <= y <= 9999):
        return None
    return datetime.date(y, m, min(d.day, last_dom(y, m)))


def quick_serials():
    s = set(range(1, 801)) | set(range(MAXSERIAL - 800, MAXSERIAL + 1))
    for y in range(1900, 10000, 100):
        for d in (datetime.date(y, 1, 1), datetime.date(y, 3, 1)):
            n = serial_of(d)
            s.update(range(max(1, n - 400), min(MAXSERIAL, n + 400) + 1))
    for y in (1904, 1999, 2000, 2001, 2020, 2024, 2100, 2400, 4000):
        n = serial_of(datetime.date(y, 2, 28))
        s.update(range(n - 3, n + 5))
    s.update(range(1, MAXSERIAL + 1, 997))
    # the turn of every year 1900-2200 (week 52/53/1), and of some later ones
    for y in list(range(1900, 2201)) + [2400, 3000, 4004, 9998]:
        n = serial_of(datetime.date(y, 12, 31))
        s.update(range(n - 6, min(MAXSERIAL, n + 8) + 1))
    s.discard(60)
    return sorted(s)


class Runner:
    def __init__(self, ctx):
        self.ctx = ctx
        from xlcalculator.xlfunctions import xl
        self.F = xl.FUNCTIONS

    def check(self, fname, args, want, counter, nt, tol=None, quirk=None):
        """quirk = (kf id, value that mechanism would produce)"""
        ctx = self.ctx
        got = monitors.call_outcome(self.F[fname], *args)
        ctx.event(counter)
        ctx.case(nt)
        if want == 'error':
            ok = got[0] == 'value' and got[1][0] == 'err'
        elif isinstance(want, datetime.date):
            iso = datetime.datetime(want.year, want.month,
                                    want.day).isoformat()
            ok = got == ('value', ('date', iso)) or \
                got == ('value', ('num', float(serial_of(want))))
        elif tol is not None:
            ok = got[0] == 'value' and got[1][0] == 'num' and \
                abs(got[1][1] - want) <= tol
        else:
            ok = got == ('value', ('num', float(want)))
            if not ok and got[0] == 'value' and got[1][0] == 'date' and \
                    float(want).is_integer() and want != 60 and want >= 1:
                # a date result stands for its serial
                dd = date_of(int(want))
                ok = got[1][1] == datetime.datetime(
                    dd.year, dd.month, dd.day).isoformat()
        if ctx.want_sample() and ctx.rng.random() < 0.0002:
            ctx.sample({'call': f'{fname}{tuple(args)!r}', 'observed': got,
                        'reference': str(want)})
        if not ok:
            ctx.fail(f'{fname}{tuple(args)!r} observed {got}, reference '
                     f'{want}', {'function': fname,
                                 'args': [repr(a) for a in args],
                                 'observed': got, 'reference': str(want)},
                     kf=(quirk[0] if quirk and got[0] == 'value' and
                         got[1][0] == 'num' and any(
                             abs(got[1][1] - qv) <= 1e-12
                             for qv in (quirk[1] if isinstance(
                                 quirk[1], list) else [quirk[1]]))
                         else None),
                     monitor='calendar-reference',
                     group=f'{fname}:{nt[1:] if nt else ""}:{got[0]}:'
                           f'{got[1][0] if got[0] == "value" else got[1][:12]}')
        return got


def run(ctx):
    from xlcalculator.xlfunctions import utils as xu
    have_conv = hasattr(xu, 'number_to_datetime') and \
        hasattr(xu, 'datetime_to_number')
    if not have_conv:
        ctx.note('conversion sub-check skipped: number_to_datetime / '
                 'datetime_to_number not present under these names')
    rng = ctx.rng
    R = Runner(ctx)
    thorough = ctx.tier == 'thorough'
    if thorough:
        lo = 1 + ctx.shard * (MAXSERIAL // ctx.nshards + 1)
        hi = min(MAXSERIAL, lo + MAXSERIAL // ctx.nshards)
        serials = [n for n in range(lo, hi + 1) if n != 60]
        ctx.block('every whole serial 1..2958465', len(serials))
    else:
        qs = quick_serials()
        serials = [n for i, n in enumerate(qs)
                   if i % ctx.nshards == ctx.shard]
    prev = None
    for n in serials:
        d = date_of(n)
        bc = ('leap' if is_leap(d.year) else 'common',
              'feb-end' if (d.month == 2 and d.day >= 28) else
              ('year-end' if (d.month, d.day) in ((12, 31), (1, 1)) else
               ('early' if n < 62 else 'plain')))
        if n >= 61 or True:
            R.check('YEAR', (n,), d.year, 'serial_field_calls',
                    ('YEAR', d.month) + bc)
            R.check('MONTH', (n,), d.month, 'serial_field_calls',
                    ('MONTH', d.month) + bc)
            R.check('DAY', (n,), d.day, 'serial_field_calls',
                    ('DAY', d.month) + bc)
            R.check('ISOWEEKNUM', (n,), d.isocalendar()[1],
                    'serial_field_calls', ('ISOWEEKNUM', d.month) + bc)
            for t in WD_TYPES:
                args = (n,) if t is None else (n, t)
                R.check('WEEKDAY', args, weekday_ref(d, t),
                        'serial_field_calls', ('WEEKDAY', t, d.weekday()))
            R.check('DATE', (d.year, d.month, d.day), d,
                    'date_constructor_calls', ('DATE-roundtrip', d.month) + bc)
        # conversions: bijection + monotone on whole days
        if not have_conv:
            continue
        ctx.event('conversion_calls')
        try:
            dt = xu.number_to_datetime(n)
            back = xu.datetime_to_number(dt)
            bad = None
            if dt != datetime.datetime(d.year, d.month, d.day):
                bad = f'number_to_datetime({n}) = {dt}, calendar date {d}'
            elif back != n:
                bad = f'datetime_to_number(number_to_datetime({n})) = {back}'
            elif prev is not None and not (prev[1] < dt):
                bad = (f'not monotone: {prev[0]} -> {prev[1]}, {n} -> {dt}')
            prev = (n, dt)
        except Exception as e:  # noqa
            bad = f'conversion of serial {n} raised {e!r}'
        ctx.case(('conversion',) + bc)
        if bad:
            ctx.fail(bad, {'serial': n, 'date': str(d)},
                     monitor='serial-date-bijection',
                     group='conversion:' + bc[1])

    # ---- the calendar fields of a serial WITH a time of day are those of its
    # day (the fraction is the time of day, it moves no date) ------------------
    if ctx.shard in (4, 5) or thorough:
        for n in (61, 62, 100, 36526, 43831, 44000, 45000, 45291, 73050,
                  MAXSERIAL - 1):
            d = date_of(n)
            for secs in (1, 60, 3600, 43200, 60480, 86399, 21600.5):
                x = n + secs / 86400
                R.check('YEAR', (x,), d.year, 'serial_field_calls',
                        ('YEAR-timed', n, secs))
                R.check('MONTH', (x,), d.month, 'serial_field_calls',
                        ('MONTH-timed', n, secs))
                R.check('DAY', (x,), d.day, 'serial_field_calls',
                        ('DAY-timed', n, secs))
                for t in (None, 2, 11, 17):
                    args = (x,) if t is None else (x, t)
                    R.check('WEEKDAY', args, weekday_ref(d, t),
                            'serial_field_calls', ('WEEKDAY-timed', t, n))
                ctx.event('timed_serial_field_cases')

    # ---- time of day --------------------------------------------------------
    for _ in range((40 if not thorough else 400) if have_conv else 0):
        n = rng.choice([1, 59, 61, 100, 36526, 44000, 45000, MAXSERIAL])
        secs = rng.choice([0, 1, 3600, 43200, 86399, 21600, 64800,
                           rng.randint(0, 86399)])
        d = date_of(n)
        want_dt = datetime.datetime(d.year, d.month, d.day) + \
            datetime.timedelta(seconds=secs)
        ctx.event('time_of_day_calls')
        ctx.case(('time-of-day', secs % 3600 == 0, n < 61))
        try:
            got = xu.number_to_datetime(n + secs / 86400)
            ok = abs((got - want_dt).total_seconds()) <= 0.001
        except Exception as e:  # noqa
            got, ok = repr(e), False
        if not ok:
            ctx.fail(f'number_to_datetime({n} + {secs}/86400) = {got}, '
                     f'reference {want_dt}', {'serial': n, 'seconds': secs},
                     monitor='time-of-day', group='time:to-datetime')
        try:
            got2 = xu.datetime_to_number(want_dt)
            ok2 = abs(got2 - (n + secs / 86400)) <= 1e-9
        except Exception as e:  # noqa
            got2, ok2 = repr(e), False
        if not ok2:
            kf = 'KF-C18-01' if (secs and isinstance(got2, (int, float)) and
                                 abs(got2 - (n + secs / 24 * 60 * 60))
                                 < 1e-6) else None
            ctx.fail(f'datetime_to_number({want_dt}) = {got2}, reference '
                     f'{n + secs / 86400}', {'serial': n, 'seconds': secs,
                                             'observed': got2},
                     kf=kf, monitor='time-of-day', group='time:to-number')

    # ---- DATE with carries ------------------------------------------------------
    for _ in range((40000 if thorough else 4000) // ctx.nshards):
        y = rng.choice([1900, 1901, 1999, 2000, 2020, 2024, 2100, 9998, 9999,
                        rng.randint(1900, 9999)])
        m = rng.randint(-40, 60)
        dd = rng.randint(-40, 60)
        if rng.random() < 0.5:
            m = rng.randint(1, 12)
        if rng.random() < 0.5:
            dd = rng.randint(1, 28)
        t = y * 12 + (m - 1)
        yy, mm = divmod(t, 12)
        mm += 1
        want = 'error'
        if 1 <= yy <= 9999:
            try:
                cand = datetime.date(yy, mm, 1) + datetime.timedelta(
                    days=dd - 1)
                if datetime.date(1900, 1, 1) <= cand:
                    want = cand
            except OverflowError:
                want = 'error'
        if want != 'error' and serial_of(want) == 60:
            continue
        if want != 'error' and want < datetime.date(1900, 3, 1) and (
                m < 1 or dd < 1 or m > 12 or dd > 28):
            continue     # carries across the fictitious leap day: not judged
        R.check('DATE', (y, m, dd), want, 'date_constructor_calls',
                ('DATE', 'carry' if not (1 <= m <= 12 and 1 <= dd <= 28)
                 else 'plain', m < 1, dd < 1, want == 'error',
                 y in (1900, 9999)))
    for y, m, dd, want in ((1900, 1, 1, datetime.date(1900, 1, 1)),
                           (9999, 12, 31, datetime.date(9999, 12, 31)),
                           (9999, 1, 1, datetime.date(9999, 1, 1)),
                           (10000, 1, 1, 'error'), (-1, 1, 1, 'error'),
                           (1900, 1, 0, 'error'), (1900, 0, 31, 'error')):
        R.check('DATE', (y, m, dd), want, 'date_constructor_calls',
                ('DATE-boundary', y, m, dd))

    # ---- DATE with fractional month / day (the whole part counts, so a month
    # or day between 0 and 1 is the month / day number 0: a carry backwards) ---
    if ctx.shard in (6, 7) or thorough:
        for y in (2020, 2021, 1999):
            for m, dd in ((0.5, 15), (0.75, 1), (3, 0.75), (3, 0.25), (1.5, 10),
                          (12.9, 31.9), (0.5, 0.5), (6, 1.999), (13.2, 1),
                          (1, 0.01)):
                mi, di = int(m), int(dd)
                t = y * 12 + (mi - 1)
                yy, mm = divmod(t, 12)
                want = datetime.date(yy, mm + 1, 1) + datetime.timedelta(
                    days=di - 1)
                R.check('DATE', (y, m, dd), want, 'date_constructor_calls',
                        ('DATE-fraction', m < 1, dd < 1))
                ctx.event('fractional_date_parts')

    # ---- EDATE / EOMONTH ---------------------------------------------------------
    sample_serials = [rng.choice(serials) for _ in range(30)] + [
        serial_of(datetime.date(2020, 1, 31)),
        serial_of(datetime.date(2019, 1, 31)),
        serial_of(datetime.date(2020, 2, 29)),
        serial_of(datetime.date(2021, 12, 31)),
        serial_of(datetime.date(2000, 3, 31)), 61, 100]
    # starts from which a few months lead into February of century years
    for y, mth, dd in ((2099, 2, 15), (2100, 1, 31), (2099, 12, 31),
                       (2100, 3, 31), (2199, 11, 30), (2000, 1, 31),
                       (2399, 8, 31), (1999, 12, 31), (2299, 1, 29)):
        sample_serials.append(serial_of(datetime.date(y, mth, dd)))
    sample_serials = [n for n in sample_serials if n >= 61] + [61, 62, 89, 91]
    for n in sample_serials:
        d = date_of(n)
        for _ in range(16 if not thorough else 60):
            k = rng.choice([0, 1, -1, 2, 3, -2, 11, 12, -12, 13, 14, 120,
                            -120, rng.randint(-1300, 1300)])
            moved = add_months(d, k)
            if moved is None or moved > datetime.date(9999, 12, 31):
                continue
            if moved < datetime.date(1900, 3, 1):
                continue
            R.check('EDATE', (n, k), serial_of(moved), 'month_move_calls',
                    ('EDATE', d.day >= 29, k < 0, moved.month == 2))
            eom = datetime.date(moved.year, moved.month,
                                last_dom(moved.year, moved.month))
            R.check('EOMONTH', (n, k), serial_of(eom), 'month_move_calls',
                    ('EOMONTH', d.day >= 29, k < 0, moved.month == 2,
                     is_leap(moved.year)))

    # ... 28 February of a common year moved by whole years into a leap year (and
    # back): the day of the month is kept, it is not "the last day of February"
    if ctx.shard in (0, 1) or thorough:
        for y in (2023, 2019, 2099, 1999, 2101, 2022):
            n = serial_of(datetime.date(y, 2, 28))
            d = date_of(n)
            for k in (12, -12, 24, 36, 48, -36, 60, 120, 1, -1, 13):
                moved = add_months(d, k)
                if moved is None or moved < datetime.date(1900, 3, 1):
                    continue
                R.check('EDATE', (n, k), serial_of(moved), 'month_move_calls',
                        ('EDATE-feb28', is_leap(moved.year), k % 12 == 0))
                ctx.event('feb28_month_moves')
        for y in (2024, 2020, 2000):
            n = serial_of(datetime.date(y, 2, 29))
            for k in (12, -12, 48, 1, -1):
                moved = add_months(date_of(n), k)
                R.check('EDATE', (n, k), serial_of(moved), 'month_move_calls',
                        ('EDATE-feb29', k))
                ctx.event('feb28_month_moves')
    # ... the last months of the range (year 9999): the end of December 9999
    # is the last serial there is, and it is reached from every distance
    if ctx.shard in (2, 3) or thorough:
        last = serial_of(datetime.date(9999, 12, 31))
        for n, k in ([(last - j, 0) for j in (0, 1, 15, 30)]
                     + [(serial_of(datetime.date(9999, 11, 30)), 1),
                        # offsets close to the whole span of the date system
                        (61, 97197), (serial_of(datetime.date(1900, 3, 15)),
                                      97197),
                        (serial_of(datetime.date(1900, 12, 31)), 97188),
                        (serial_of(datetime.date(1900, 5, 31)), 97195),
                        (serial_of(datetime.date(9999, 6, 30)), 6),
                        (serial_of(datetime.date(9998, 11, 30)), 13),
                        (serial_of(datetime.date(9999, 1, 31)), 11),
                        (serial_of(datetime.date(9000, 12, 15)), 999 * 12),
                        (serial_of(datetime.date(2024, 2, 29)), 7975 * 12
                         + 10)]):
            d = date_of(n)
            moved = add_months(d, k)
            ctx.event('end_of_range_month_moves')
            R.check('EDATE', (n, k), serial_of(moved), 'month_move_calls',
                    ('EDATE-9999', n, k))
            R.check('EOMONTH', (n, k), last, 'month_move_calls',
                    ('EOMONTH-9999', n, k))
        for n, k in ((MAXSERIAL, -97197), (MAXSERIAL - 30, -97196),
                     (serial_of(datetime.date(9999, 6, 15)), -97191)):
            d = date_of(n)
            moved = add_months(d, k)
            eom = datetime.date(moved.year, moved.month,
                                last_dom(moved.year, moved.month))
            R.check('EDATE', (n, k), serial_of(moved), 'month_move_calls',
                    ('EDATE-span', n, k))
            R.check('EOMONTH', (n, k), serial_of(eom), 'month_move_calls',
                    ('EOMONTH-span', n, k))
            ctx.event('end_of_range_month_moves')
        for n, k in ((serial_of(datetime.date(9999, 11, 30)), 0),
                     (serial_of(datetime.date(9999, 12, 1)), -1),
                     (serial_of(datetime.date(9999, 10, 31)), 1)):
            R.check('EOMONTH', (n, k), serial_of(datetime.date(9999, 11, 30)),
                    'month_move_calls', ('EOMONTH-9999-11', n, k))
            ctx.event('end_of_range_month_moves')

    # ---- January and February 1900 (serials 1..59, next to the serial 60 that
    # no calendar date has): differences of dates are differences of their
    # serials; YEARFRAC accepts 1900-01-01 -------------------------------------
    if ctx.shard in (0, 1) or thorough:
        low = [1, 2, 31, 32, 58, 59]
        high = [61, 62, 100, 366, 43831]
        forms_low, wants_low = [], []
        for a in low + high[:2]:
            for b in low + high:
                R.check('DAYS', (b, a), b - a, 'pair_calls',
                        ('DAYS-1900', a < 60, b < 60))
                ctx.event('early_1900_cases')
                if a <= 59 and b >= 61:
                    da, db = date_of(a), date_of(b)
                    forms_low.append(
                        f'=DATE({db.year},{db.month},{db.day})-'
                        f'DATE({da.year},{da.month},{da.day})')
                    wants_low.append(float(b - a))
        outs_low = subject.eval_batch(forms_low)
        for text, want, got in zip(forms_low, wants_low, outs_low):
            ctx.event('formula_calls')
            ctx.event('early_1900_cases')
            ctx.case(('date-subtraction-1900', text[:24]))
            if got != ('value', ('num', want)):
                ctx.fail(f'{text} observed {got}, reference {want} (the '
                         f'difference of the serials)',
                         {'formula': text, 'observed': got,
                          'reference': want}, monitor='calendar-reference',
                         group='subtraction-1900')
        for a in (1, 2):
            for b in (1, 2, 61, 366, 43831):
                for basis in (0, 1, 2, 3, 4):
                    got = monitors.call_outcome(R.F['YEARFRAC'], a, b, basis)
                    ctx.event('pair_calls')
                    ctx.event('early_1900_cases')
                    ctx.case(('YEARFRAC-1900', a, b == a, basis))
                    ok = got[0] == 'value' and got[1][0] == 'num' and (
                        got[1][1] == 0 if a == b else got[1][1] > 0)
                    if not ok:
                        ctx.fail(f'YEARFRAC({a}, {b}, {basis}) observed '
                                 f'{got}: serial {a} is a date '
                                 f'(1900-01-0{a}), a number '
                                 f'{"0" if a == b else "> 0"} is expected',
                                 {'function': 'YEARFRAC',
                                  'args': [a, b, basis], 'observed': got},
                                 monitor='calendar-reference',
                                 group='YEARFRAC-1900')

    # ---- ordered pairs: DAYS, subtraction, DATEDIF, YEARFRAC ------------------------
    pool = sorted(set(
        [61, 62, 91] + [rng.randint(61, 80000) for _ in range(40 if not thorough else 140)]
        + [serial_of(datetime.date(y, m, dd)) for y, m, dd in (
            (2019, 1, 31), (2019, 2, 28), (2019, 3, 31), (2020, 1, 31),
            (2020, 2, 29), (2020, 3, 1), (2020, 12, 31), (2021, 1, 1),
            (2021, 6, 15), (2021, 6, 16), (2022, 6, 15), (2024, 2, 29),
            (2025, 2, 28), (2019, 6, 15), (2019, 11, 15), (2024, 2, 28),
            (1976, 2, 28))]))
    pairs = [(a, b) for a in pool for b in pool]
    mine = [p for i, p in enumerate(pairs) if i % ctx.nshards == ctx.shard]
    forms, fmeta = [], []
    for a, b in mine:
        da, db = date_of(a), date_of(b)
        R.check('DAYS', (b, a), b - a, 'pair_calls', ('DAYS', b >= a))
        if len(forms) < 300:
            forms.append(f'={b}-{a}')
            fmeta.append(('subtraction', a, b, float(b - a)))
        if a <= b:
            R.check('DATEDIF', (a, b, 'D'), b - a, 'pair_calls',
                    ('DATEDIF-D', da.month, db.month))
            months = (db.year - da.year) * 12 + db.month - da.month - (
                1 if db.day < da.day else 0)
            R.check('DATEDIF', (a, b, 'M'), months, 'pair_calls',
                    ('DATEDIF-M', da.day >= 29, db.day < da.day,
                     db.month == 2))
            years = db.year - da.year - (
                1 if (db.month, db.day) < (da.month, da.day) else 0)
            R.check('DATEDIF', (a, b, 'Y'), years, 'pair_calls',
                    ('DATEDIF-Y', (db.month, db.day) < (da.month, da.day),
                     (da.month, da.day) == (2, 29)))
        else:
            R.check('DATEDIF', (a, b, 'D'), 'error', 'pair_calls',
                    ('DATEDIF', 'start-after-end'))
        lo, hi = (da, db) if da <= db else (db, da)
        days = (hi - lo).days
        R.check('YEARFRAC', (a, b, 2), days / 360, 'pair_calls',
                ('YEARFRAC', 2, a <= b), tol=1e-12)
        R.check('YEARFRAC', (a, b, 3), days / 365, 'pair_calls',
                ('YEARFRAC', 3, a <= b), tol=1e-12)

        def plain(d):
            return d.day <= 28 and not (d.month == 2 and
                                        d.day == last_dom(d.year, 2))
        if plain(lo) and plain(hi):
            d360 = (hi.year - lo.year) * 360 + (hi.month - lo.month) * 30 + \
                (hi.day - lo.day)
            # quirk model of KF-C18-06: 28 February of a LEAP year (not the
            # month's last day) is treated as the end of February (day 30)
            quirk = None
            if any(d.month == 2 and d.day == 28 and is_leap(d.year)
                   for d in (lo, hi)):
                def q(d):
                    return 30 if (d.month == 2 and d.day == 28) else d.day
                base360 = (hi.year - lo.year) * 360 + \
                    (hi.month - lo.month) * 30
                # the adjustment may hit the start, the end (not when it is
                # the maturity date) or both
                quirk = ('KF-C18-06', [
                    (base360 + q(hi) - q(lo)) / 360,
                    (base360 + hi.day - q(lo)) / 360,
                    (base360 + q(hi) - lo.day) / 360])
            for basis in (0, 4):
                R.check('YEARFRAC', (a, b, basis), d360 / 360, 'pair_calls',
                        ('YEARFRAC', basis, a <= b), tol=1e-12, quirk=quirk)
            R.check('YEARFRAC', (a, b), d360 / 360, 'pair_calls',
                    ('YEARFRAC', 'default', a <= b), tol=1e-12, quirk=quirk)
        if lo.year == hi.year and not is_leap(lo.year):
            R.check('YEARFRAC', (a, b, 1), days / 365, 'pair_calls',
                    ('YEARFRAC', 1, 'same-common-year'), tol=1e-3)
    if forms:
        outs = subject.eval_batch(forms)
        for (name, a, b, want), text, got in zip(fmeta, forms, outs):
            ctx.event('pair_calls')
            ctx.case(('formula-subtraction', b >= a))
            if got != ('value', ('num', want)):
                ctx.fail(f'{text} -> {got}, reference {want}',
                         {'formula': text, 'observed': got},
                         monitor='calendar-reference', group='subtraction')
