"""C09 — one total order behind the six comparison operators.

Events: the full matrix M[mode][op][a][b] in {TRUE, FALSE, error, exception} for
every ordered pair of the value pool; modes = library call with Excel-type
objects / library call with native values / formula over cells holding the
values / formula over literals.
Oracle: OFFLINE checker over the recorded matrix: the order laws (trichotomy,
<= is < or =, >= is > or =, <> is not =, a<b iff b>a, transitivity over all
triples) and agreement with the stated order.
"""
import datetime
import itertools

from vlib import monitors, ref, subject

PROPERTY = 'C09'
RULE = ('value pool (ints, floats, +-0, dates, texts: empty, numeric-looking, '
        "'true'/'false', mixed case, prefixes of one another, non-ASCII; "
        'booleans; blank) x all ordered pairs x 6 operators x 4 modes '
        '(typed call, native call, formula over cells, formula over '
        'literals); order laws over all pairs and triples computed offline '
        'from the recorded matrix.  non-trivial = pair of different values or '
        'equal across types; distinct by (mode, op, type pair class, pair)')
ASSUMPTIONS = [
    'reference order written from the statement: numbers (dates as serials) '
    '< texts (case-insensitive) < FALSE < TRUE; blank = 0 = "" = FALSE',
    'non-ASCII texts are compared only for equality/case-insensitivity with '
    '1:1 case mappings',
]
FLOORS = {'matrix_entries': 10000, 'reassigned_entries': 3000, 'type_pair_classes': 25,
          'law_instances': 5000, 'triples_checked': 5000}
ANCHOR_FUNCS = {
    'xlcalculator/xlfunctions/operator.py': ['OP_EQ', 'OP_NE', 'OP_GT',
                                             'OP_LT', 'OP_GE', 'OP_LE'],
    'xlcalculator/xlfunctions/func_xltypes.py': ['ExcelType.__lt__',
                                                 'ExcelType._sort_key',
                                                 'Text.__lt__'],
}
TIMEOUT = {'quick': 600, 'thorough': 2400}

OPS = {'=': 'OP_EQ', '<>': 'OP_NE', '<': 'OP_LT', '>': 'OP_GT',
       '<=': 'OP_LE', '>=': 'OP_GE'}
D1 = datetime.datetime(2020, 6, 18)     # serial 44000
D2 = datetime.datetime(2000, 1, 1)      # serial 36526
EPOCH = datetime.datetime(1899, 12, 30)

BASE_POOL = [
    ('int', -2), ('int', 0), ('int', 1), ('int', 5), ('int', 12),
    ('int', 44000), ('float', -0.5), ('float', 0.0), ('float', -0.0),
    ('float', 1.0), ('float', 2.5), ('float', 1e10),
    ('float', 0.1 + 0.2), ('float', 0.3), ('float', 1.0000000000000002),
    ('float', 1e-13), ('float', 1e15), ('float', 1e15 + 0.5),
    ('float', 5e-324),
    ('date', D1), ('date', D2),
    # moments of one day (the fraction of a serial is the time of day)
    ('date', D1.replace(hour=6)), ('date', D1.replace(hour=12)),
    ('date', D1.replace(hour=12, second=1)), ('float', 44000.5),
    ('int', 44001),
    # whole numbers next to each other beyond 2^53 (cell values and library
    # arguments can hold them exactly)
    ('int', 2 ** 53), ('int', 2 ** 53 + 1), ('float', float(2 ** 53)),
    ('int', 10 ** 18), ('int', 10 ** 18 + 1), ('int', -2 ** 53 - 1),
    ('int', -2 ** 53),
    ('text', ''), ('text', '1'), ('text', '5'), ('text', '12'),
    ('text', 'true'), ('text', 'TRUE'), ('text', 'False'), ('text', 'abc'),
    ('text', 'ABC'), ('text', 'abd'), ('text', 'ab'), ('text', 'a'),
    ('text', 'Z'), ('text', 'é'), ('text', 'É'), ('text', '-1'),
    ('text', ' '), ('text', 'a b'),
    # letters whose upper-case form is longer (the statement does not say
    # whether "straße" equals "STRASSE": such pairs are judged by the order
    # LAWS only)
    ('text', 'straße'), ('text', 'STRASSE'), ('text', 'ﬁn'), ('text', 'FIN'),
    # letters on whose case-less form upper(), lower() and casefold() disagree
    # (dotless i, Kelvin sign, capital sharp s, long s): judged by the LAWS only
    ('text', '\u0131'), ('text', 'i'), ('text', 'I'), ('text', '\u212a'),
    ('text', 'k'), ('text', 'K'), ('text', '\u1e9e'), ('text', 'ß'),
    ('text', 'ss'), ('text', 'SS'), ('text', '\u017f'), ('text', 's'),
    # long texts: equal up to position 256 / 512, one a prefix of the other
    ('text', 'x' * 256), ('text', 'x' * 257), ('text', 'X' * 300),
    ('text', 'x' * 512 + 'y'), ('text', 'x' * 512),
    ('bool', True), ('bool', False), ('blank', None),
    # truth values as numpy hands them out (comparisons of numpy numbers)
    ('npbool', True), ('npbool', False),
]
MODES = ['typed', 'native', 'cells', 'literals', 'calls', 'reassigned',
         'keywords']


def shards(tier):
    return 16


def refval(kind, v, quirk=False):
    if kind == 'date':
        d = v - EPOCH
        if quirk:
            # KF-C18-01: the time of day is added as seconds/24*60*60
            return d.days + d.seconds / 24 * 60 * 60
        return d.days + d.seconds / 86400.0
    return v


def ref_truth(op, a, b):
    return ref.CMP[op](ref.compare(refval(*a), refval(*b)))


def expanding(t):
    return len(t.upper()) != len(t) or len(t.lower()) != len(t) or any(
        ch in t for ch in '\u0131\u212a\u1e9e\u017f')


def cls(kind):
    return {'int': 'number', 'float': 'number',
            'npbool': 'bool'}.get(kind, kind)


def pool_for(ctx):
    pool = list(BASE_POOL)
    if ctx.tier == 'thorough':
        rng = ctx.rng.__class__(ctx.seed * 77 + 5)     # same pool in shards
        for _ in range(40):
            pool.append(('float', round(rng.uniform(-100, 100), 3)))
        for _ in range(40):
            n = rng.randint(1, 5)
            pool.append(('text', ''.join(rng.choice('aAbB1 zZ') for _ in
                                         range(n))))
    # de-duplicate
    seen, out = set(), []
    for k, v in pool:
        key = (k, repr(v))
        if key not in seen:
            seen.add(key)
            out.append((k, v))
    return out


def lit_of(kind, v):
    if kind in ('blank', 'date', 'npbool'):
        return None
    if kind == 'int' and abs(v) > 2 ** 53:
        return None       # a formula literal is a double
    if kind == 'float' and (v == 0 and str(v).startswith('-')):
        return None
    if kind in ('int', 'float') and v < 0:
        return '-' + subject.lit(-v)
    return subject.lit(v)


def run(ctx):
    import numpy
    from xlcalculator.xlfunctions import xl, func_xltypes as T
    F = xl.FUNCTIONS
    pool = pool_for(ctx)
    pairs = list(itertools.product(range(len(pool)), repeat=2))
    mine = [p for i, p in enumerate(pairs) if i % ctx.nshards == ctx.shard]
    matrix = []        # (mode, op, i, j, outcome)

    def outcome_code(got):
        if got[0] == 'raised':
            return 'X:' + got[1][:60]
        n = got[1]
        if n[0] == 'bool':
            return 'T' if n[1] else 'F'
        if n[0] == 'err':
            return 'E:' + n[1]
        return 'V:' + repr(n)[:40]

    # typed + native library calls
    for i, j in mine:
        a, b = pool[i], pool[j]
        for mode in ('typed', 'native'):
            x, y = a[1], b[1]
            if a[0] == 'npbool':
                x = numpy.bool_(x)
            if b[0] == 'npbool':
                y = numpy.bool_(y)
            if mode == 'typed':
                x = T.ExcelType.cast_from_native(x)
                y = T.ExcelType.cast_from_native(y)
            for op, fname in OPS.items():
                got = monitors.call_outcome(F[fname], x, y)
                matrix.append((mode, op, i, j, outcome_code(got)))
                if mode == 'typed' and (i + j) % 3 == 0:
                    # the operands handed over BY NAME, the right one first
                    import inspect
                    try:
                        pn = list(inspect.signature(F[fname]).parameters)[:2]
                        kw = {pn[1]: y, pn[0]: x}
                        gk = monitors.call_outcome(
                            lambda: F[fname](**kw))
                    except (TypeError, ValueError, IndexError):
                        continue
                    matrix.append(('keywords', op, i, j, outcome_code(gk)))
    # formulas over cells / literals, batched
    CH = 60
    for k in range(0, len(mine), CH):
        chunk = mine[k:k + CH]
        inputs, post, texts, meta = {}, {}, [], []
        row = 0
        for i, j in chunk:
            a, b = pool[i], pool[j]
            row += 1
            for col, (kind, v) in (('A', a), ('B', b)):
                addr = f'{col}{row}'
                if kind == 'blank':
                    continue
                if kind == 'date' or (kind == 'text' and v == ''):
                    inputs[addr] = 0
                    post['Sheet1!' + addr] = v
                elif kind == 'npbool':
                    inputs[addr] = 0
                    post['Sheet1!' + addr] = numpy.bool_(v)
                else:
                    inputs[addr] = v
            for op in OPS:
                texts.append(f'=A{row}{op}B{row}')
                meta.append(('cells', op, i, j))
            la, lb = lit_of(*a), lit_of(*b)
            if la is not None and lb is not None:
                for op in OPS:
                    texts.append(f'={la}{op}{lb}')
                    meta.append(('literals', op, i, j))
                # both operands produced by calls of one and the same
                # function (with different arguments)
                for op in OPS:
                    texts.append(f'=IF(TRUE,{la}){op}IF(TRUE,{lb})')
                    meta.append(('calls', op, i, j))
        outs = subject.eval_batch(texts, inputs, post_set=post)
        for (mode, op, i, j), got in zip(meta, outs):
            matrix.append((mode, op, i, j, outcome_code(got)))
        # the same pairs on ONE model and ONE Evaluator whose cells held other
        # values first (the pair the other way round): every comparison is
        # evaluated, the operands are re-assigned - one of the four setter
        # routes per pair - and every comparison is evaluated again
        from xlcalculator import Evaluator, xltypes
        init, final, texts2, meta2 = {}, [], [], []
        row = 0
        for n_, (i, j) in enumerate(chunk):
            a, b = pool[i], pool[j]
            row += 1
            first = (b, a) if 'blank' not in (a[0], b[0]) else (a, b)
            for col, (kind, v), (kind0, v0) in (('A', a, first[0]),
                                                ('B', b, first[1])):
                addr = f'Sheet1!{col}{row}'
                if kind == 'blank':
                    continue
                plain0 = not (kind0 in ('date', 'npbool', 'blank')
                              or (kind0 == 'text' and v0 == ''))
                init[addr] = v0 if plain0 else 0
                final.append((addr, numpy.bool_(v) if kind == 'npbool' else v,
                              n_ % 4))
            for op in OPS:
                texts2.append(f'=A{row}{op}B{row}')
                meta2.append(('reassigned', op, i, j))
        cells2 = dict(init)
        probes = []
        for k2, t in enumerate(texts2):
            cells2[f'Sheet1!ZZ{k2 + 1}'] = t
            probes.append(f'Sheet1!ZZ{k2 + 1}')
        try:
            model2 = subject.compile_dict(cells2)
            ev2 = Evaluator(model2)
            for pa in probes:
                subject.outcome_of(lambda: ev2.evaluate(pa))
            for addr, v, route in final:
                target = addr if route < 2 else xltypes.XLCell(addr, None)
                (ev2 if route % 2 == 0 else model2).set_cell_value(target, v)
            outs2 = [subject.outcome_of(lambda: ev2.evaluate(pa))
                     for pa in probes]
        except monitors.MonitorAbort:
            raise
        except Exception as e:  # noqa
            outs2 = [('raised', f'{type(e).__name__}: {e}'[:80])] * len(probes)
        for (mode, op, i, j), got in zip(meta2, outs2):
            matrix.append((mode, op, i, j, outcome_code(got)))
            ctx.event('reassigned_entries')
    ctx.event('matrix_entries', len(matrix))
    ctx.data['matrix'] = matrix
    ctx.data['pool'] = [(k, repr(v)) for k, v in pool]


# -- quirk models of the listed mechanisms -------------------------------------

def libstr(kind, v):
    if kind == 'bool':
        return 'True' if v else 'False'
    if kind == 'blank':
        return ''
    if kind == 'date':
        return str(v)
    return str(v)


def quirk_predict(mode, op, a, b):
    """-> {kf id: predicted outcome code} for every listed mechanism whose
    feature the case carries"""
    out = {}
    ka, kb = cls(a[0]), cls(b[0])
    # KF-C09-03: ordering operators answer FALSE as soon as one side is blank
    if op in ('<', '>', '<=', '>=') and 'blank' in (ka, kb):
        out['KF-C09-03'] = 'F'
    # KF-C09-01: a text on the left compares upper-cased string forms (the
    # ordering operators cast native operands first, so they are affected in
    # native mode too; = and <> on natives are Python's, see KF-C09-04)
    if ka == 'text' and kb != 'text' and not (
            mode == 'native' and op in ('=', '<>')):
        bv = b[1]
        if mode in ('literals', 'calls') and isinstance(bv, float) and \
                bv.is_integer():
            bv = int(bv)          # the literal 1.0 is written 1
        x, y = a[1].upper(), libstr(b[0], bv).upper()
        if op == '<' and kb == 'date':
            out['KF-C09-01'] = 'F'
        elif op == '=' and a[1] == '' and (
                kb == 'blank' or (kb in ('number', 'bool') and not b[1])):
            # the empty text "equals" every value that equals a blank
            out['KF-C09-01'] = 'T'
        else:
            c = -1 if x < y else (1 if x > y else 0)
            out['KF-C09-01'] = 'T' if ref.CMP[op](c) else 'F'
    # KF-C18-01: a date with a time of day converts to days + seconds*150
    timed = [x for x in (a, b) if x[0] == 'date' and (x[1] - EPOCH).seconds]
    if timed and 'text' not in (ka, kb) and 'blank' not in (ka, kb) and \
            'bool' not in (ka, kb):
        c = ref.compare(refval(*a, quirk=True), refval(*b, quirk=True))
        out['KF-C18-01'] = 'T' if ref.CMP[op](c) else 'F'
    # KF-C09-04: = and <> on native operands are Python == / !=
    if mode == 'native' and op in ('=', '<>'):
        try:
            eq = (a[1] == b[1])
        except Exception:  # noqa
            eq = False
        out['KF-C09-04'] = 'T' if (eq if op == '=' else not eq) else 'F'
    return out


def offline(merged, ctx):
    pool = None
    M = {}
    for d in merged['data']:
        if not d:
            continue
        pool = pool or d.get('pool')
        for mode, op, i, j, code in d.get('matrix', []):
            M[(mode, op, i, j)] = code
    if not pool:
        ctx.inconclusive_because('no matrix recorded')
        return
    vals = []
    for k, r in pool:
        if k == 'date':
            vals.append((k, eval(r, {'datetime': datetime})))
        elif k == 'blank':
            vals.append((k, None))
        elif k in ('bool', 'npbool'):
            vals.append((k, r == 'True'))
        elif k == 'text':
            vals.append((k, eval(r)))
        elif k == 'int':
            vals.append((k, int(r)))
        else:
            vals.append((k, float(r)))
    n = len(vals)
    classes = set()
    deviating = {}          # entry -> kf or None
    samples = 0
    for (mode, op, i, j), code in M.items():
        a, b = vals[i], vals[j]
        classes.add((cls(a[0]), cls(b[0])))
        want = 'T' if ref_truth(op, a, b) else 'F'
        differs = ref.compare(refval(*a), refval(*b)) != 0 or \
            cls(a[0]) != cls(b[0])
        ctx.case((mode, op, cls(a[0]), cls(b[0]), i, j) if differs else None)
        if samples < 6 and (i * 7 + j) % 97 == 0 and mode == 'cells':
            ctx.sample({'mode': mode, 'formula': f'{a[1]!r} {op} {b[1]!r}',
                        'observed': code, 'reference': want})
            samples += 1
        if code == want:
            continue
        if a[0] == 'text' and b[0] == 'text' and (expanding(a[1]) or
                                                  expanding(b[1])):
            # law-only pair: no verdict on the entry itself; remember which
            # listed mechanism produces exactly this outcome, for the
            # attribution of a broken law
            for k, p in quirk_predict(mode, op, a, b).items():
                if p == code:
                    deviating[(mode, op, i, j)] = k
            continue
        preds = quirk_predict(mode, op, a, b)
        kf = None
        for k, p in preds.items():
            if p == code:
                kf = k
                break
        deviating[(mode, op, i, j)] = kf
        ctx.fail(f'[{mode}] {a[1]!r} {op} {b[1]!r} -> {code}, the stated '
                 f'order gives {want}',
                 {'mode': mode, 'op': op, 'left': [a[0], repr(a[1])],
                  'right': [b[0], repr(b[1])], 'observed': code,
                  'reference': want, 'mechanism_predictions': preds},
                 kf=kf, monitor='agreement-with-stated-order',
                 group=f'{mode}:{op}:{cls(a[0])}:{cls(b[0])}:{code[:3]}')
    ctx.event('type_pair_classes', len(classes))

    # ---- order laws on the observed matrix (non-blank values) ---------------
    def T(mode, op, i, j):
        return M.get((mode, op, i, j))
    nonblank = [i for i in range(n) if vals[i][0] != 'blank']
    laws = 0
    for mode in MODES:
        for i in nonblank:
            for j in nonblank:
                lt, eq, gt = T(mode, '<', i, j), T(mode, '=', i, j), \
                    T(mode, '>', i, j)
                if lt is None or eq is None or gt is None:
                    continue
                entries = [(mode, o, i, j) for o in OPS]
                checks = [
                    ('trichotomy', [lt, eq, gt].count('T') == 1),
                    ('<= is < or =', T(mode, '<=', i, j) ==
                     ('T' if 'T' in (lt, eq) else 'F')),
                    ('>= is > or =', T(mode, '>=', i, j) ==
                     ('T' if 'T' in (gt, eq) else 'F')),
                    ('<> is not =', T(mode, '<>', i, j) ==
                     ('F' if eq == 'T' else 'T')),
                    ('a<b iff b>a', lt == T(mode, '>', j, i)),
                ]
                for name, ok in checks:
                    laws += 1
                    if ok:
                        continue
                    involved = entries + [(mode, '>', j, i)]
                    kfs = {deviating.get(e) for e in involved
                           if e in deviating}
                    kf = None
                    if kfs and None not in kfs:
                        kf = sorted(kfs)[0]
                    a, b = vals[i], vals[j]
                    ctx.fail(f'[{mode}] law "{name}" broken for {a[1]!r}, '
                             f'{b[1]!r}: <:{lt} =:{eq} >:{gt} '
                             f'<=:{T(mode, "<=", i, j)} '
                             f'>=:{T(mode, ">=", i, j)} '
                             f'<>:{T(mode, "<>", i, j)} '
                             f'b>a:{T(mode, ">", j, i)}',
                             {'mode': mode, 'law': name,
                              'a': repr(a[1]), 'b': repr(b[1])},
                             kf=kf, monitor='order-laws',
                             group=f'law:{name}:{mode}:{cls(a[0])}:'
                                   f'{cls(b[0])}')
    ctx.event('law_instances', laws)
    # transitivity over all triples
    triples = 0
    for mode in MODES:
        less = {(i, j) for i in nonblank for j in nonblank
                if T(mode, '<', i, j) == 'T'}
        succ = {}
        for i, j in less:
            succ.setdefault(i, []).append(j)
        for i, j in less:
            for k in succ.get(j, ()):
                triples += 1
                if T(mode, '<', i, k) not in ('T', None):
                    involved = [(mode, '<', i, j), (mode, '<', j, k),
                                (mode, '<', i, k)]
                    kfs = {deviating.get(e) for e in involved
                           if e in deviating}
                    kf = sorted(kfs)[0] if kfs and None not in kfs else None
                    a, b, c = vals[i], vals[j], vals[k]
                    ctx.fail(f'[{mode}] < is not transitive: {a[1]!r} < '
                             f'{b[1]!r} < {c[1]!r} but not {a[1]!r} < '
                             f'{c[1]!r}', {'mode': mode,
                                           'triple': [repr(a[1]), repr(b[1]),
                                                      repr(c[1])]},
                             kf=kf, monitor='order-laws',
                             group=f'transitivity:{mode}:{cls(a[0])}:'
                                   f'{cls(b[0])}:{cls(c[0])}')
    ctx.event('triples_checked', triples)
