"""C10 — IF/AND/OR/NOT select lazily and follow Excel's truth rules.

Events: ordered log of SPY(id, value) calls per evaluation (a spy function
registered in the evaluator's namespace) + the result of Evaluator.evaluate.
Oracle: reference lazy evaluator.  IF: result of the selected branch and the
spy log contains exactly the spies of the condition and of the selected branch;
poison in the other branch leaves no trace.  AND/OR: from the log, the set of
evaluated arguments is known; the result is the leftmost evaluated error, else
the conjunction/disjunction over all non-blank elements, and stopping early is
accepted only after a deciding element.
"""
from vlib import build, monitors, ref, subject

PROPERTY = 'C10'
RULE = ('formulas IF/AND/OR/NOT nested to depth 4 over constants, references '
        '(all truth assignments to <= 4 cells: TRUE, FALSE, 0, non-zero '
        'number, blank), comparisons; branches and arguments wrapped in '
        'SPY(i, ...); poison (error value, unknown function, self reference, '
        'Python error) at every unselected position; AND/OR with 1-6 '
        'arguments mixing scalars and ranges with blanks.  non-trivial = the '
        'unselected branch is poisoned or carries a spy; distinct by '
        '(formula shape, truth assignment).  A sample is evaluated again on '
        'the same Evaluator after A1:A4 were re-assigned (or cleared) through '
        'set_cell_value')
ASSUMPTIONS = [
    'text conditions and AND/OR over blanks only are not generated '
    '(statement silent)',
    'AND/OR may evaluate all arguments or stop after a deciding one; both '
    'are accepted',
]
FLOORS = {'if_cases': 500, 'poisoned_unselected': 200, 'andor_cases': 500,
          'not_cases': 50, 'spy_calls': 1000, 'omitted_else': 20,
          'reassigned_cases': 100, 'foreign_namespace_evaluations': 10,
          'long_range_cases': 32, 'blank_only_cases': 12,
          'extracted_models': 20, 'same_rectangle_two_sheets_cases': 100,
          'deep_nesting_cases': 80, 'empty_text_prelude_evaluations': 6}
ANCHOR_FUNCS = {
    'xlcalculator/xlfunctions/logical.py': ['IF', 'AND', 'OR', 'NOT'],
    'xlcalculator/ast_nodes.py': ['FunctionNode.eval'],
}
TIMEOUT = {'quick': 600, 'thorough': 2400}

S = 'Sheet1'
TRUTHY = [True, 1, 2.5, -1]
FALSY = [False, 0, None]
F4 = (False,) * 4


def shards(tier):
    return 16


def L(v):
    if isinstance(v, bool):
        return ('lit', v, 'TRUE' if v else 'FALSE')
    if v < 0:
        return ('neg', ('lit', -v, subject.lit(-v)))
    return ('lit', v, subject.lit(v))


def cell(i):
    return ('ref', None, 1, i + 1, False, False)       # A1..A4


class G:
    """formula generator with spy numbering"""

    def __init__(self, rng):
        self.rng = rng
        self.n = 0

    def spy(self, ast):
        self.n += 1
        return ('call', 'SPY', [('lit', self.n, str(self.n)), ast])

    def poison(self):
        r = self.rng.random()
        if r < 0.25:
            return ('bin', '/', ('lit', 1, '1'), ('lit', 0, '0')), 'error'
        if r < 0.5:
            return ('call', 'NOSUCHFUNCTION', [('lit', 1, '1')]), 'unknown'
        if r < 0.75:
            return ('call', 'BOOM', [('lit', 1, '1')]), 'python-error'
        return ('ref', None, 26, 1, False, False), 'self-reference'  # Z1

    def value(self, depth):
        r = self.rng.random()
        if depth > 0 and r < 0.35:
            return self.logical(depth - 1)
        if r < 0.6:
            return cell(self.rng.randrange(4))
        return L(self.rng.choice([0, 1, 2, 7, 0.5, True, False]))

    def cond(self, depth):
        r = self.rng.random()
        if depth > 0 and r < 0.3:
            return self.logical(depth - 1)
        if r < 0.6:
            return cell(self.rng.randrange(4))
        if r < 0.75:
            return ('bin', self.rng.choice(['>', '<', '=', '>=', '<>']),
                    cell(self.rng.randrange(4)),
                    L(self.rng.choice([0, 1, 2])))
        if r < 0.85:
            # a comparison of a number the numeric library produced (SIGN,
            # ABS give numpy scalars; the truth value then is numpy's)
            return ('bin', self.rng.choice(['>', '<', '>=', '<=']),
                    ('call', self.rng.choice(['SIGN', 'ABS']),
                     [cell(self.rng.randrange(4))]),
                    L(self.rng.choice([0, 1])))
        return L(self.rng.choice([True, False, 0, 3, 1e-17]))

    def logical(self, depth):
        r = self.rng.random()
        if r < 0.45:
            c = self.spy(self.cond(depth))
            a = self.spy(self.value(depth))
            if self.rng.random() < 0.2:
                return ('call', 'IF', [c, a])
            b = self.spy(self.value(depth))
            return ('call', 'IF', [c, a, b])
        if r < 0.85:
            n = self.rng.randint(1, 6 if depth == 0 else 3)
            args = []
            for _ in range(n):
                if self.rng.random() < 0.2:
                    # the range spelt relative, absolute or mixed ($)
                    args.append(('rng', None, 1, 1, 1, self.rng.randint(1, 4),
                                 self.rng.choice([F4, F4, (True,) * 4,
                                                  (False, True, False, True),
                                                  (True, False, True,
                                                   False)])))
                else:
                    args.append(self.spy(self.cond(depth)))
            return ('call', self.rng.choice(['AND', 'OR']), args)
        return ('call', 'NOT', [self.spy(self.cond(depth))])


def spies_in(ast, out):
    if ast[0] == 'call':
        if ast[1] == 'SPY':
            out.append(ast[2][0][1])
        for a in ast[2]:
            spies_in(a, out)
    elif ast[0] == 'bin':
        spies_in(ast[2], out)
        spies_in(ast[3], out)
    elif ast[0] in ('neg', 'par'):
        spies_in(ast[1], out)
    return out


class LazyRef:
    """reference lazy evaluator that also predicts the admissible spy logs"""

    def __init__(self, wb):
        self.wb = wb

    def ev(self, ast, log):
        """-> value; appends spy ids in evaluation order to log.  For AND/OR
        the reference evaluates ALL arguments (the monitor then accepts a
        prefix that ends after a deciding element)."""
        k = ast[0]
        if k == 'call':
            name, args = ast[1], ast[2]
            if name == 'SPY':
                log.append(args[0][1])
                return self.ev(args[1], log)
            if name == 'IF':
                c = ref.truth_of(ref._scalar(self.ev(args[0], log)))
                if isinstance(c, ref.Err):
                    return c
                if c:
                    return self.ev(args[1], log)
                if len(args) < 3:
                    return False
                return self.ev(args[2], log)
            if name == 'NOT':
                t = ref.truth_of(ref._scalar(self.ev(args[0], log)))
                return t if isinstance(t, ref.Err) else (not t)
            if name in ('AND', 'OR'):
                raise NotImplementedError
            return self.wb.call(name, args, S, {}, [])
        if k == 'bin':
            a = ref._scalar(self.ev(ast[2], log))
            b = ref._scalar(self.ev(ast[3], log))
            return ref.binop(ast[1], a, b)
        if k == 'neg':
            return ref.neg(self.ev(ast[1], log))
        if k == 'par':
            return self.ev(ast[1], log)
        return self.wb.eval(ast, S)


def andor_outcomes(lr, ast):
    """all admissible (result, spy log) pairs of an AND/OR/IF/NOT tree where
    AND/OR may stop after a deciding element.  Returns a list of (value,
    log tuple)."""
    k = ast[0]
    if k == 'call' and ast[1] in ('AND', 'OR'):
        is_and = ast[1] == 'AND'
        # state: list of (decided?, error, truths-so-far, log)
        states = [(None, [], ())]        # (final value or None, truths, log)
        finals = []
        for arg in ast[2]:
            new_states = []
            for final, truths, log in states:
                for v, lg in andor_outcomes(lr, arg):
                    items = [x for x, _ in ref._items([v])]
                    t2 = list(truths)
                    fin = None
                    for it in items:
                        if isinstance(it, ref.Err):
                            fin = it
                            break
                        if it is None:
                            continue
                        t = ref.truth_of(it)
                        t2.append(t)
                        if (is_and and not t) or (not is_and and t):
                            # a deciding element: stopping here is allowed,
                            # continuing as well
                            finals.append((('decided', not is_and),
                                           log + lg))
                    if fin is not None:
                        finals.append((('value', fin), log + lg))
                        continue
                    new_states.append((None, t2, log + lg))
            states = new_states
        out = []
        for _, truths, log in states:
            if not truths:
                raise ref.Undecided('AND/OR over blanks only')
            out.append((all(truths) if is_and else any(truths), log))
        for (kind, v), log in finals:
            out.append((v, log))
        return out
    if k == 'call' and ast[1] == 'SPY':
        # SPY is an ordinary eager function: its argument is evaluated (and
        # logs) first, then the spy itself logs
        ident = ast[2][0][1]
        return [(v, lg + (ident,)) for v, lg in andor_outcomes(lr, ast[2][1])]
    if k == 'call' and ast[1] == 'IF':
        out = []
        for c, lg in andor_outcomes(lr, ast[2][0]):
            t = ref.truth_of(ref._scalar(c))
            if isinstance(t, ref.Err):
                out.append((t, lg))
            elif t:
                out.extend((v, lg + l2)
                           for v, l2 in andor_outcomes(lr, ast[2][1]))
            elif len(ast[2]) < 3:
                out.append((False, lg))
            else:
                out.extend((v, lg + l2)
                           for v, l2 in andor_outcomes(lr, ast[2][2]))
        return out
    if k == 'call' and ast[1] == 'NOT':
        out = []
        for c, lg in andor_outcomes(lr, ast[2][0]):
            t = ref.truth_of(ref._scalar(c))
            out.append((t if isinstance(t, ref.Err) else (not t), lg))
        return out
    if k == 'bin':
        out = []
        for a, la in andor_outcomes(lr, ast[2]):
            for b, lb in andor_outcomes(lr, ast[3]):
                out.append((ref.binop(ast[1], ref._scalar(a),
                                      ref._scalar(b)), la + lb))
        return out
    if k == 'neg':
        return [(ref.neg(v), lg) for v, lg in andor_outcomes(lr, ast[1])]
    if k == 'par':
        return andor_outcomes(lr, ast[1])
    if k == 'call':
        # poison or other function: evaluate through the workbook (raises
        # RefPythonError for unknown function / BOOM)
        return [(lr.wb.call(ast[1], ast[2], S, {}, []), ())]
    return [(lr.wb.eval(ast, S), ())]


def run(ctx):
    from xlcalculator import Evaluator
    rng = ctx.rng
    spies = monitors.Spies().install()
    ref.QUIRKS.add('blank_compare_undecided')
    thorough = ctx.tier == 'thorough'
    truth_values = [True, False, 0, 3, None]
    n_formulas = (120000 if thorough else 6000) // ctx.nshards

    batch = []
    groups_done = [0]

    def flush():
        nonlocal batch
        if not batch:
            return
        # group by assignment: one model per assignment
        by = {}
        for item in batch:
            by.setdefault(item['asg'], []).append(item)
        batch = []
        for asg, items in by.items():
            cells = {}
            wbcells = {}
            for i, v in enumerate(asg):
                if isinstance(v, str) and v.startswith('#'):
                    cells[f'A{i + 1}'] = '=' + v
                    wbcells[(S, 1, i + 1)] = ref.Err(v)
                elif v is not None:
                    cells[f'A{i + 1}'] = v
                    wbcells[(S, 1, i + 1)] = v
            # Y1 fails when evaluated (unknown function)
            cells['Y1'] = '=NOSUCHFUNCTION(1)'
            # Z1 refers to itself through each probe: give each probe its own
            # self reference by pointing Z1 at nothing evaluable: Z1 = Z1
            cells['Z1'] = '=Z1'
            for j, it in enumerate(items):
                cells[f'P{j + 1}'] = '=' + ref.render(it['ast'])
            try:
                model = subject.compile_dict(cells)
            except Exception as e:  # noqa
                for it in items:
                    ctx.fail(f'compiling {ref.render(it["ast"])} raised {e!r}',
                             {'formula': ref.render(it['ast'])},
                             monitor='construction', group='compile')
                continue
            groups_done[0] += 1
            if groups_done[0] % 3 == 0:
                # a sub-model with only the formulas in focus: the cells they
                # read (constants that are FALSE or 0 among them) come along
                from xlcalculator import ModelCompiler
                try:
                    model = ModelCompiler.extract(
                        model, focus=[f'{S}!P{j + 1}'
                                      for j in range(len(items))])
                    ctx.event('extracted_models')
                except Exception as e:  # noqa
                    ctx.fail(f'extract(focus = the {len(items)} formulas) '
                             f'raised {e!r}', {'cells': cells},
                             monitor='construction', group='extract')
                    continue
            ev = Evaluator(model)
            wb = ref.Workbook(wbcells)
            wb.cells[(S, 26, 1)] = ('f', ('ref', None, 26, 1, False, False))
            wb.cells[(S, 25, 1)] = ('f', ('call', 'NOSUCHFUNCTION',
                                          [('lit', 1, '1')]))
            lr = LazyRef(wb)
            for j, it in enumerate(items):
                a = f'{S}!P{j + 1}'
                spies.take()
                got = subject.outcome_of(lambda: ev.evaluate(a))
                log = tuple(spies.take())
                ctx.event('spy_calls', len(log))
                judge(ctx, it, asg, got, log, lr)
            # ---- the same model under re-assigned cells: A1:A4 are changed
            # through set_cell_value (None clears a cell) and a sample of the
            # formulas is evaluated again on the SAME Evaluator; the oracle is
            # the reference for the cells that are current at that moment
            others = [a for a in by if a != asg and not any(
                isinstance(v, str) for v in a + asg)]
            if not others:
                continue
            asg2 = rng.choice(others)
            try:
                for i, v in enumerate(asg2):
                    if v != asg[i] or type(v) is not type(asg[i]):
                        ev.set_cell_value(f'{S}!A{i + 1}', v)
            except Exception as e:  # noqa
                ctx.fail(f'set_cell_value raised {e!r} for A1:A4={asg2}',
                         {'cells_before': asg, 'cells_after': asg2},
                         monitor='construction', group='set')
                continue
            wb2 = ref.Workbook({(S, 1, i + 1): v for i, v in enumerate(asg2)
                                if v is not None})
            wb2.cells[(S, 26, 1)] = wb.cells[(S, 26, 1)]
            wb2.cells[(S, 25, 1)] = wb.cells[(S, 25, 1)]
            lr2 = LazyRef(wb2)
            pick = rng.sample(range(len(items)), min(len(items), 25))
            for j in pick:
                it = dict(items[j], reassigned_from=asg)
                a = f'{S}!P{j + 1}'
                spies.take()
                got = subject.outcome_of(lambda: ev.evaluate(a))
                log = tuple(spies.take())
                ctx.event('reassigned_cases')
                judge(ctx, it, asg2, got, log, lr2)

    def judge(ctx, it, asg, got, log, lr):
        ast = it['ast']
        text = '=' + ref.render(ast)
        try:
            admissible = andor_outcomes(lr, ast)
        except ref.Undecided:
            ctx.event('skipped_undecided')
            return
        except (ref.RefPythonError, ref.RefCycle) as e:
            # the reference itself must evaluate poison: then the formula is
            # expected to fail
            ctx.case(None)
            if got[0] != 'raised':
                ctx.fail(f'{text} with A1:A4={asg}: returned {got} although '
                         f'an evaluated argument fails ({e!r})',
                         {'formula': text, 'cells': asg, 'observed': got},
                         monitor='lazy-selection', group='must-fail')
            return
        ctx.event(it['kind'] + '_cases')
        if it.get('poisoned'):
            ctx.event('poisoned_unselected')
        if it.get('omitted_else'):
            ctx.event('omitted_else')
        nt = (it['shape'], asg) if (it.get('poisoned') or
                                    len(spies_in(ast, [])) > len(log)) \
            else None
        ctx.case(nt)
        ok = False
        if got[0] == 'value':
            for v, lg in admissible:
                try:
                    nv = ref.to_norm(v)
                except TypeError:
                    continue
                if nv == got[1] and tuple(lg) == log:
                    ok = True
                    break
        if ctx.want_sample() and ctx.rng.random() < 0.01:
            ctx.sample({'formula': text, 'A1:A4': asg, 'observed': got,
                        'spy_log': log,
                        'admissible': [(ref.to_norm(v), lg)
                                       for v, lg in admissible[:3]]})
        if not ok:
            adm = []
            for v, lg in admissible[:4]:
                try:
                    adm.append((ref.to_norm(v), lg))
                except TypeError:
                    adm.append((repr(v), lg))
            kind = 'value'
            if got[0] == 'value' and any(a[0] == got[1] for a in adm):
                kind = 'spy-log'
            was = it.get('reassigned_from')
            note = f' (same model, cells were {was} before)' if was else ''
            ctx.fail(f'{text} with A1:A4={asg}{note}: observed {got} with spy '
                     f'log {log}; admissible (value, log): {adm}',
                     {'formula': text, 'cells': asg, 'observed': got,
                      'cells_before_reassignment': was,
                      'spy_log': log, 'admissible': adm,
                      'poison': it.get('poison')},
                     kf=classify(it, got), monitor='lazy-selection',
                     group=f'{it["kind"]}:{kind}:{it.get("poison")}:'
                           f'{got[0]}')

    # ---- another application's evaluator in the same process ------------------
    # An Evaluator with its own namespace in which IF/AND/OR/NOT are the
    # user's strict (eager) functions evaluates first (even shards) or between
    # the two parts of the workload (odd shards); the library's own functions
    # in the default namespace must stay lazy afterwards.
    def foreign_namespace():
        from xlcalculator.xlfunctions import xl

        def IF(c, a=True, b=False):
            return a if c else b

        def AND(*xs):
            return all(bool(x) for x in xs)

        def OR(*xs):
            return any(bool(x) for x in xs)

        def NOT(x):
            return not x
        ns = xl.FUNCTIONS.copy()
        ns.update({'IF': IF, 'AND': AND, 'OR': OR, 'NOT': NOT})
        m = subject.compile_dict({
            'A1': 1, 'B1': '=IF(A1>0,2,3)', 'B2': '=AND(A1,TRUE)',
            'B3': '=OR(A1,FALSE)', 'B4': '=NOT(A1)',
            'B5': '=IF(AND(A1,OR(A1,A1)),NOT(A1),5)'})
        ev = Evaluator(m, namespace=ns)
        for a in ('B1', 'B2', 'B3', 'B4', 'B5'):
            subject.outcome_of(lambda: ev.evaluate(f'{S}!{a}'))
        ctx.event('foreign_namespace_evaluations', 5)
    # ---- what this process did before: AND / OR have met empty texts (a text
    # is not a truth value the statement speaks about; whatever comes out, the
    # evaluations that follow are judged as usual) ---------------------------
    def empty_text_prelude():
        pre = {'A1': '=""', 'A2': 0, 'A3': False, 'P1': '=AND(A1,TRUE)',
               'P2': '=OR(A1,FALSE)', 'P3': '=AND("",TRUE)', 'P4': '=OR(A1:A3)',
               'P5': '=AND(A1:A1)', 'P6': '=IF(A1="",AND(A1,A1),0)'}
        try:
            ev_pre = Evaluator(subject.compile_dict(pre))
            for k in ('P1', 'P2', 'P3', 'P4', 'P5', 'P6'):
                subject.outcome_of(lambda: ev_pre.evaluate(f'{S}!{k}'))
                ctx.event('empty_text_prelude_evaluations')
            ev_pre.set_cell_value(f'{S}!A2', '')
            subject.outcome_of(lambda: ev_pre.evaluate(f'{S}!P4'))
        except Exception as e:  # noqa
            ctx.note(f'empty-text prelude raised {e!r}')

    if ctx.shard % 2 == 0:
        foreign_namespace()
    empty_text_prelude()

    # ---- exhaustive: IF over every truth value, each poison, omitted else ---
    g = G(rng)
    work = 0
    for cv in truth_values + [2.5, -1, 1e-17, -5e-324]:
        for poison_kind in range(4):
            for omitted in (False, True):
                work += 1
                if work % ctx.nshards != ctx.shard:
                    continue
                g.n = 0
                rng_state = rng.random()
                p, pname = [
                    (('bin', '/', ('lit', 1, '1'), ('lit', 0, '0')), 'error'),
                    (('call', 'NOSUCHFUNCTION', [('lit', 1, '1')]),
                     'unknown'),
                    (('call', 'BOOM', [('lit', 1, '1')]), 'python-error'),
                    (('ref', None, 26, 1, False, False), 'self-reference'),
                ][poison_kind]
                truthy = ref.truth_of(cv)
                c = g.spy(cell(0))
                good = g.spy(L(7))
                bad = g.spy(p)
                if pname == 'self-reference' and omitted is False and \
                        cv in (True, False, 0, 3):
                    # unwrapped: the branch IS the failing reference
                    for bare in (p, ('ref', None, 25, 1, False, False)):
                        ast2 = ('call', 'IF', [c, good, bare] if truthy
                                else [c, bare, good])
                        batch.append({'ast': ast2, 'asg': (cv, 1, 0, None),
                                      'kind': 'if', 'poisoned': True,
                                      'poison': 'bare-reference',
                                      'shape': ('if-bare', repr(bare))})
                if omitted:
                    if not truthy:
                        ast = ('call', 'IF', [c, bad])
                    else:
                        continue
                else:
                    ast = ('call', 'IF', [c, good, bad] if truthy
                           else [c, bad, good])
                batch.append({'ast': ast, 'asg': (cv, 1, 0, None),
                              'kind': 'if', 'poisoned': True,
                              'poison': pname, 'omitted_else': omitted,
                              'shape': ('if-poison', pname, omitted)})
    flush()
    if ctx.shard % 2 == 1:
        foreign_namespace()

    # ---- nothing but blanks: the statement does not say what AND/OR of no
    # element at all is, but it is the same "no element" however the blanks
    # are handed over (one reference, two, a range, a cleared cell) ----------
    if ctx.shard in (4, 5) or thorough:
        for fn in ('AND', 'OR'):
            forms = [f'={fn}(Z9)', f'={fn}(Z9,Z8)', f'={fn}(Z8:Z9)',
                     f'={fn}(Y5)', f'={fn}(Z9,Z8:Z9,Y5)',
                     f'=IF({fn}(Z9),1,2)=IF({fn}(Z8:Z9),1,2)']
            ev_ = Evaluator(subject.compile_dict(
                dict({'Y5': 3}, **{f'Q{i + 1}': f for i, f in
                                   enumerate(forms)})))
            ev_.set_cell_value(f'{S}!Y5', None)          # a cleared cell
            outs = [subject.outcome_of(lambda i=i: ev_.evaluate(
                f'{S}!Q{i + 1}')) for i in range(len(forms))]
            ctx.event('blank_only_cases', len(forms))
            ctx.case(('blank-only', fn))
            kinds = {str(o) for o in outs[:-1]}
            last_ok = outs[-1] == ('value', ('bool', True)) or \
                outs[-1][0] == 'raised' or (
                    outs[-1][0] == 'value' and outs[-1][1][0] == 'err')
            if len(kinds) > 1 or not last_ok:
                ctx.fail(f'{fn} of nothing but blanks depends on how the '
                         f'blanks are handed over: '
                         f'{list(zip(forms, outs))}',
                         {'formulas': forms, 'observed': outs},
                         monitor='lazy-selection', group=f'blank-only:{fn}')

    # ---- the same rectangle on two sheets in ONE call: the deciding element
    # sits in only one of them ---------------------------------------------
    if ctx.shard in (6, 7) or thorough:
        for fn, neutral, decider in (('OR', False, True), ('AND', True, False),
                                     ('OR', 0, 1), ('AND', 1, 0)):
            for where in ('second', 'first', 'third'):
                cells = {}
                for sh_ in ('Sheet1', 'Other', 'Third'):
                    for r in (1, 2):
                        for c in ('A', 'B'):
                            cells[f'{sh_}!{c}{r}'] = neutral
                tgt = {'first': 'Sheet1', 'second': 'Other',
                       'third': 'Third'}[where]
                cells[f'{tgt}!B2'] = decider
                hit = (fn == 'OR')
                probes = {
                    f'={fn}(A1:B2,Other!A1:B2)': hit if where != 'third'
                    else (not hit),
                    f'={fn}(Other!A1:B2,A1:B2)': hit if where != 'third'
                    else (not hit),
                    f'={fn}(A1:B2,Other!A1:B2,Third!A1:B2)': hit,
                    f'={fn}(Third!A1:B2,Other!A1:B2,Sheet1!A1:B2)': hit,
                    f'=IF({fn}(A1:B2,Other!A1:B2,Third!A1:B2),"y","n")':
                        'y' if hit else 'n',
                    f'=NOT({fn}(A1:B2,Other!A1:B2,Third!A1:B2))': not hit,
                    f'={fn}(A1:A2,Other!A1:A2,B1:B2,Other!B1:B2,Third!B1:B2)':
                        hit,
                }
                outs = subject.eval_batch(list(probes), cells)
                for (text, want), got in zip(probes.items(), outs):
                    ctx.event('andor_cases')
                    ctx.event('same_rectangle_two_sheets_cases')
                    ctx.case(('two-sheets', fn, where, text[:24],
                              repr(neutral)))
                    wn = ('bool', want) if isinstance(want, bool) else \
                        ('text', want)
                    if got != ('value', wn):
                        ctx.fail(f'{text} (on Sheet1) with every cell '
                                 f'{neutral!r} except {tgt}!B2 = {decider!r}: '
                                 f'observed {got}, expected {want}',
                                 {'formula': text, 'cells': cells,
                                  'observed': got},
                                 monitor='lazy-selection',
                                 group=f'two-sheets:{fn}:{where}')

    # ---- functions nested 20-60 levels deep (Excel allows 64): the innermost
    # condition decides ------------------------------------------------------
    if ctx.shard in (8, 9) or thorough:
        for depth in (10, 20, 33, 40, 60):
            for inner in (True, False):
                cells = {'A1': inner, 'A2': True, 'A3': False}
                nest_if = 'A1'
                for k in range(depth):
                    nest_if = f'IF(A2,{nest_if},{k})'
                nest_not = 'A1'
                for k in range(depth if depth % 2 == 0 else depth + 1):
                    nest_not = f'NOT({nest_not})'
                nest_andor = 'A1'
                for k in range(depth):
                    nest_andor = (f'AND(A2,{nest_andor})' if k % 2 == 0
                                  else f'OR(A3,{nest_andor})')
                nest_plus = 'A1'
                for k in range(min(depth, 30)):
                    nest_plus = f'(0+IF(A2,{nest_plus},9))'
                probes = {f'={nest_if}': ('bool', inner),
                          f'={nest_not}': ('bool', inner),
                          f'={nest_andor}': ('bool', inner),
                          f'=IF({nest_andor},"y","n")':
                              ('text', 'y' if inner else 'n'),
                          f'={nest_plus}': ('num', 1.0 if inner else 0.0)}
                outs = subject.eval_batch(list(probes), cells)
                for (text, want), got in zip(probes.items(), outs):
                    ctx.event('deep_nesting_cases')
                    ctx.case(('deep-nesting', depth, inner, text[:6]))
                    if got != ('value', want):
                        ctx.fail(f'{text[:50]}... ({depth} levels of nesting, '
                                 f'innermost condition {inner}): observed '
                                 f'{str(got)[:200]}, expected {want}',
                                 {'levels': depth, 'formula': text[:300],
                                  'observed': str(got)[:300]},
                                 monitor='lazy-selection',
                                 group=f'deep-nesting:{text[1:4]}:{got[0]}')

    # ---- long ranges: the deciding element comes after more than 100 elements
    # that are FALSE / 0 (values, not blanks) --------------------------------
    if ctx.shard in (2, 3) or thorough:
        for filler, decider in ((False, True), (0, 1), (0, True),
                                (False, 5)):
            cells = {}
            for r in range(1, 251):
                cells[f'A{r}'] = filler                 # a column of 250
            cells['A250'] = decider
            for c in range(1, 151):
                cells[f'{ref.col_letters(c + 2)}1'] = filler   # a row of 150
            cells[f'{ref.col_letters(152)}1'] = decider
            for r in range(3, 6):
                for c in range(3, 123):
                    cells[f'{ref.col_letters(c)}{r}'] = filler  # 3 x 120
            cells[f'{ref.col_letters(122)}5'] = decider
            row_rg = f'C1:{ref.col_letters(152)}1'
            blk_rg = f'C3:{ref.col_letters(122)}5'
            probes = {
                '=OR(A1:A250)': True, '=OR(A1:A249)': False,
                f'=OR({row_rg})': True, f'=OR({blk_rg})': True,
                '=NOT(OR(A1:A250))': False,
                f'=IF(OR({row_rg}),"hit","miss")': 'hit',
                '=AND(OR(A1:A250),TRUE)': True,
                f'=OR(FALSE,{blk_rg},FALSE)': True,
            }
            outs = subject.eval_batch(list(probes), cells)
            for (text, want), got in zip(probes.items(), outs):
                ctx.event('long_range_cases')
                ctx.event('andor_cases')
                ctx.case(('long-range', text, repr(filler)))
                wn = ('bool', want) if isinstance(want, bool) else \
                    ('text', want)
                if got != ('value', wn):
                    ctx.fail(f'{text} over {250 if "A1" in text else 150}+ '
                             f'cells holding {filler!r} with {decider!r} at '
                             f'the end: observed {got}, expected {want}',
                             {'formula': text, 'filler': repr(filler),
                              'decider': repr(decider), 'observed': got},
                             monitor='lazy-selection',
                             group=f'long-range:{filler!r}')

    # ---- sampled ---------------------------------------------------------------
    for i in range(n_formulas):
        g = G(rng)
        depth = rng.randint(0, 3)
        ast = g.logical(depth)
        kind = {'IF': 'if', 'AND': 'andor', 'OR': 'andor',
                'NOT': 'not'}[ast[1]]
        item = {'ast': ast, 'kind': kind, 'shape': ref.render(ast)}
        # poison one unselected IF branch somewhere (decided per assignment
        # by the reference: if the poison is evaluated the formula must fail)
        if kind == 'if' and rng.random() < 0.6:
            p, pname = g.poison()
            args = list(ast[2])
            pos = rng.choice([1, 2]) if len(args) == 3 else 1
            if pname == 'self-reference' and rng.random() < 0.7:
                # a BARE reference to a cell that cannot be evaluated
                args[pos] = rng.choice([p, ('ref', None, 25, 1, False,
                                            False)])
            else:
                args[pos] = g.spy(p)
            item['ast'] = ('call', 'IF', args)
            item['poison'] = pname
            item['poisoned'] = True
        if kind == 'if' and len(item['ast'][2]) == 2:
            item['omitted_else'] = True
        asg = tuple(rng.choice(truth_values + [2.5, 1e-17, -1e-300, 5e-324])
                    for _ in range(4))
        if rng.random() < 0.25:
            # an error value in one of the cells (also reached through ranges)
            lst = list(asg)
            lst[rng.randrange(4)] = rng.choice(['#DIV/0!', '#N/A', '#VALUE!'])
            asg = tuple(lst)
        if all(v is None for v in asg):
            asg = (True,) + asg[1:]
        item['asg'] = asg
        batch.append(item)
        if len(batch) >= 200:
            flush()
    flush()


def classify(it, got):
    return None
