"""C19 — base conversions are exact two's-complement conversions.

Events: every call of the twelve registered functions (library spelling, through
xl.FUNCTIONS) and every Evaluator.evaluate of the corresponding formula
(formula spelling).  Oracle: Python int/format reference written from the
statement.  Exhaustive block: all 1024 integers of the binary window x every
`places`.
"""
from vlib import monitors, subject

PROPERTY = 'C19'
RULE = ('cases = (function, argument spelling, integer or digit string, places)'
        ' executed through xl.FUNCTIONS[...] and, as formulas, through '
        'Evaluator.evaluate; exhaustive over the 1024 integers of the binary '
        'window x places in {omitted,-1,0,1..11}, window edges +-4 of the '
        'octal/hex windows, seeded samples across +-2^40, every invalid '
        'character class at every position; distinct non-trivial = distinct '
        '(function, sign, distance-to-window-edge class, places class, '
        'spelling, outcome class)')
ASSUMPTIONS = [
    'reference = Python int()/format() two\'s complement arithmetic at 10 '
    'digits, written from the statement only',
    'not generated (statement silent): fractional decimal inputs of DEC2x, '
    'empty digit strings, text/fractional places (lower-case hex digits '
    'are valid input, as in Excel)',
]
FLOORS = {'calls_library': 1000, 'calls_formula': 200, 'roundtrips': 200}
TIER_FLOORS = {'quick': {}, 'thorough': {}}
ANCHOR_FUNCS = {'xlcalculator/xlfunctions/engineering.py': [
    'convert_bases', 'conversion', 'handle_number', 'handle_places',
    'pad_zeroes']}
TIMEOUT = {'quick': 300, 'thorough': 1800}

BASES = {'BIN': 2, 'OCT': 8, 'HEX': 16}
FMT = {2: 'b', 8: 'o', 16: 'X'}
WIN = {2: 2 ** 9, 8: 2 ** 29, 16: 2 ** 39}
OMIT = 'omitted'
NUM = ('err', '#NUM!')
VALUE = ('err', '#VALUE!')
DIGITS = {2: '01', 8: '01234567', 16: '0123456789ABCDEF'}


def shards(tier):
    return 16


# -- reference ---------------------------------------------------------------

def ref_digits(n, base, places):
    """integer -> digit string in `base` (or NUM)."""
    if not (-WIN[base] <= n < WIN[base]):
        return NUM
    if places is None:
        places = 0              # a blank argument counts as 0 (C08)
    if places is not OMIT:
        places = int(places)    # a fractional 'places' is truncated
    if places is not OMIT and not (1 <= places <= 10):
        return NUM
    if n < 0:
        return ('text', format(n + base ** 10, FMT[base]).upper())
    s = format(n, FMT[base]).upper()
    if places is not OMIT:
        if len(s) > places:
            return NUM
        s = s.zfill(places)
    return ('text', s)


def ref_value(s, base):
    """digit string -> integer or NUM (hex digits in either case)."""
    if len(s) > 10 or len(s) == 0:
        return NUM
    # character by character (upper-casing the whole string would turn the
    # ligature "ff" into two hex digits): a digit is one of 0-9, A-F, a-f
    if any(ch not in DIGITS[base] and not (
            base == 16 and ch in 'abcdef') for ch in s):
        return NUM
    v = int(s, base)
    if v >= base ** 10 // 2:
        v -= base ** 10
    return v


def ref_call(fname, arg, places):
    src, dst = fname.split('2')
    if isinstance(arg, bool) or isinstance(places, bool):
        return VALUE
    if src == 'DEC':
        v = arg
    else:
        s = arg if isinstance(arg, str) else None
        if s is None:
            # a number standing for its digits
            if isinstance(arg, float) and not arg.is_integer():
                return NUM
            s = str(int(arg))
        v = ref_value(s, BASES[src])
        if v == NUM:
            return NUM
    if dst == 'DEC':
        return ('num', float(v))
    return ref_digits(v, BASES[dst], places)


FUNCS = [a + '2' + b for a in ('DEC', 'BIN', 'OCT', 'HEX')
         for b in ('DEC', 'BIN', 'OCT', 'HEX') if a != b]


def edge_class(v, w):
    d = min(abs(v - (-w)), abs(v - (w - 1)))
    if not (-w <= v < w):
        return 'out' + ('-near' if d <= 4 else '-far')
    return 'edge' if d <= 4 else ('zero' if v == 0 else 'in')


def places_class(p):
    if p is OMIT:
        return 'omit'
    if isinstance(p, bool):
        return 'bool'
    if p is None:
        return 'blank'
    if isinstance(p, float) and not p.is_integer():
        return 'fraction-' + ('bad' if not 1 <= int(p) <= 10 else 'ok')
    return 'bad' if not 1 <= p <= 10 else ('p%d' % p)


class Runner:
    def __init__(self, ctx):
        self.ctx = ctx
        from xlcalculator.xlfunctions import xl
        self.F = xl.FUNCTIONS
        self.formula_queue = []

    def args_for(self, fname, arg, places):
        a = [arg]
        if places is not OMIT:
            a.append(places)
        return a

    def check(self, fname, arg, places, spelling, expect, got, via):
        ctx = self.ctx
        src, dst = fname.split('2')
        if isinstance(arg, bool):
            v_cls = 'bool'
        elif src == 'DEC':
            v_cls = ('neg' if arg < 0 else 'pos') + ':' + edge_class(
                arg, WIN[BASES[dst]])
        else:
            rv = ref_value(arg if isinstance(arg, str) else str(arg),
                           BASES[src]) if not isinstance(arg, float) else NUM
            if rv == NUM:
                v_cls = 'baddigits'
            else:
                w = WIN[BASES[dst]] if dst != 'DEC' else WIN[BASES[src]]
                v_cls = ('neg' if rv < 0 else 'pos') + ':' + edge_class(rv, w)
        ctx.case((fname, v_cls, places_class(places), spelling, expect[0],
                  via))
        ctx.event('calls_' + via)
        ok = (got == ('value', expect))
        if (not ok and got[0] == 'value' and expect[0] == 'num'
                and got[1][0] == 'num' and got[1][1] == expect[1]):
            ok = True
        if ctx.want_sample() and ctx.rng.random() < 0.002:
            ctx.sample({'via': via, 'call': f'{fname}({arg!r}, {places!r})',
                        'observed': got, 'reference': expect})
        if not ok:
            kf = None
            if (via == 'formula' and got[0] == 'raised'
                    and 'KeyError' in got[1] and fname in got[1]):
                kf = 'KF-C19-01'
            ctx.fail(f'{fname}({arg!r}, places={places!r}) via {via} '
                     f'[{spelling}] observed {got} reference {expect}',
                     {'function': fname, 'arg': arg, 'places': places,
                      'spelling': spelling, 'via': via, 'observed': got,
                      'reference': expect}, kf=kf, monitor='reference-value')

    def library(self, fname, arg, places, spelling='native'):
        expect = ref_call(fname, arg, places)
        f = self.F.get(fname)
        if f is None:
            got = ('raised', 'KeyError: not registered ' + fname)
        else:
            got = monitors.call_outcome(f, *self.args_for(fname, arg, places))
        self.check(fname, arg, places, spelling, expect, got, 'library')
        return got

    def formula(self, fname, arg, places, spelling='literal'):
        self.formula_queue.append((fname, arg, places, spelling))
        if len(self.formula_queue) >= 400:
            self.flush()

    def flush(self):
        q, self.formula_queue = self.formula_queue, []
        if not q:
            return
        texts = []
        for fname, arg, places, spelling in q:
            a = subject.lit(arg)
            t = f'={fname}({a}' + (
                '' if places is OMIT else ',' + (
                    'Z99' if places is None else subject.lit(places))) + ')'
            texts.append(t)
        outs = subject.eval_batch(texts)
        for (fname, arg, places, spelling), got in zip(q, outs):
            expect = ref_call(fname, arg, places)
            self.check(fname, arg, places, spelling, expect, got, 'formula')

    def roundtrip(self, n, a, b):
        """there and back: X2Y(Y2X... ) identity through the library."""
        ctx = self.ctx
        F = self.F
        try:
            if a == 'DEC':
                there = F[f'DEC2{b}'](n)
                back = F[f'{b}2DEC'](there)
                ok = monitors.norm(back) == ('num', float(n))
                shown = (n, monitors.norm(there), monitors.norm(back))
            else:
                s = ref_digits(n, BASES[a], OMIT)[1]
                there = F[f'{a}2{b}'](s)
                back = F[f'{b}2{a}'](there) if b != 'DEC' else \
                    F[f'DEC2{a}'](there)
                ok = monitors.norm(back) == ('text', s)
                shown = (s, monitors.norm(there), monitors.norm(back))
        except BaseException as e:  # noqa
            ok = False
            shown = (n, 'raised', f'{type(e).__name__}: {e}')
        ctx.event('roundtrips')
        ctx.case(('roundtrip', a, b, n < 0, edge_class(
            n, min(WIN[BASES[x]] for x in (a, b) if x != 'DEC'))))
        if not ok:
            ctx.fail(f'round trip {a}->{b}->{a} of {n} is not the identity: '
                     f'{shown}', {'n': n, 'a': a, 'b': b, 'observed': shown},
                     monitor='roundtrip-identity')


PLACES_ALL = [OMIT, -1, 0, 1, 2, 3, 4, 5, 6, 7, 8, 9, 10, 11,
              None, 3.5, 10.9, 0.5, 4.0, 11.2]


def run(ctx):
    R = Runner(ctx)
    rng = ctx.rng
    sh, n = ctx.shard, ctx.nshards
    thorough = ctx.tier == 'thorough'

    # ---- exhaustive binary block (split over shards by residue) ----------
    for v in range(-512, 512):
        if v % n != sh:
            continue
        for p in PLACES_ALL:
            R.library('DEC2BIN', v, p)
            if p in (OMIT, 1, 5, 10, 0, 11, None, 3.5) or thorough:
                R.formula('DEC2BIN', v, p)
        s = ref_digits(v, 2, OMIT)[1]
        for fn in ('BIN2DEC', 'BIN2OCT', 'BIN2HEX'):
            for p in ([OMIT] if fn == 'BIN2DEC' else PLACES_ALL):
                R.library(fn, s, p, 'text')
                if p in (OMIT, 3, 10):
                    R.formula(fn, s, p, 'text')
            # digits given as a number (only non-negative values are spelt
            # without a leading 1-bit pattern of 10 digits, both are digits)
            if fn == 'BIN2DEC':
                R.library(fn, int(s), OMIT, 'number')
                R.library(fn, float(int(s)), OMIT, 'float')
        for b in ('OCT', 'HEX', 'DEC'):
            R.roundtrip(v, 'BIN', b)
            R.roundtrip(v, b, 'BIN')
    ctx.block('binary window x places (DEC2BIN, BIN2*)', 1024 // n + 1)

    # ---- window edges of every pair ---------------------------------------
    edges = set()
    for w in WIN.values():
        for d in range(-4, 5):
            edges.update([w + d, -w + d, w - 1 + d])
    edges.update([0, 1, -1, 2, 7, 8, 9, 15, 16, 255, 256, -255, -256])
    edges = sorted(edges)
    samples = []
    count = (60000 if thorough else 5000) // n
    for _ in range(count):
        k = rng.choice([8, 10, 12, 20, 28, 29, 30, 31, 38, 39, 40, 41])
        samples.append(rng.randint(-2 ** k, 2 ** k))
    work = [v for i, v in enumerate(edges) if i % n == sh] + samples
    for idx, v in enumerate(work):
        is_edge = idx < len(work) - len(samples)
        for dst in ('BIN', 'OCT', 'HEX'):
            for p in ([OMIT, 1, 4, 10, 0, 11] if is_edge else
                      [rng.choice(PLACES_ALL)]):
                R.library(f'DEC2{dst}', v, p)
                if is_edge or rng.random() < 0.1:
                    R.formula(f'DEC2{dst}', v, p)
        for src in ('OCT', 'HEX'):
            b = BASES[src]
            if not (-(b ** 10) // 2 <= v < b ** 10 // 2):
                continue
            s = format(v + b ** 10 if v < 0 else v, FMT[b]).upper()
            variants = [s]
            if v >= 0 and len(s) < 10:
                variants.append(s.zfill(rng.randint(len(s), 10)))
            if src == 'HEX' and s.lower() != s:
                variants.append(s.lower())
                variants.append(''.join(ch.lower() if i % 2 else ch
                                        for i, ch in enumerate(s)))
            for sv in variants:
                for dst in ('DEC', 'BIN', 'OCT', 'HEX'):
                    if dst == src:
                        continue
                    for p in ([OMIT] if dst == 'DEC' else
                              ([OMIT, 1, 10, 11] if is_edge else
                               [rng.choice(PLACES_ALL)])):
                        R.library(f'{src}2{dst}', sv, p, 'text')
                        if is_edge or rng.random() < 0.1:
                            R.formula(f'{src}2{dst}', sv, p, 'text')
                if src == 'OCT' and sv.isdigit() and sv[0] != '0':
                    R.library('OCT2DEC', int(sv), OMIT, 'number')
        for a, b in (('DEC', 'OCT'), ('DEC', 'HEX'), ('OCT', 'HEX'),
                     ('HEX', 'OCT'), ('OCT', 'DEC'), ('HEX', 'DEC')):
            w = min(WIN[BASES[x]] for x in (a, b) if x != 'DEC')
            if -w <= v < w:
                R.roundtrip(v, a, b)

    # ---- invalid inputs: every character class at every position ----------
    if sh == 0 or thorough:
        bad_chars = {'BIN': '2 9A.-+\u00b2\u2460', 'OCT': '8 9A.-+\u00b2\u2460',
                     # ... and letters whose UPPER-case form would be hex digits
                     # (the ligature ff), or that merely look like one
                     'HEX': 'G Z.-+g\ufb00\u0131\u00b2\u2460\u00df'}
        for src in ('BIN', 'OCT', 'HEX'):
            good = {'BIN': '1011', 'OCT': '1735', 'HEX': '1A9F'}[src]
            for pos in range(len(good) + 1):
                for ch in bad_chars[src]:
                    s = good[:pos] + ch + good[pos:]
                    if s.strip() != s:
                        continue   # leading/trailing blanks: statement silent
                    for dst in ('DEC', 'BIN', 'OCT', 'HEX'):
                        if dst != src:
                            R.library(f'{src}2{dst}', s, OMIT, 'text-invalid')
                            R.formula(f'{src}2{dst}', s, OMIT, 'text-invalid')
            # more than 10 digits
            s11 = {'BIN': '10000000001', 'OCT': '10000000001',
                   'HEX': '10000000001'}[src]
            for dst in ('DEC', 'BIN', 'OCT', 'HEX'):
                if dst != src:
                    # padded with zeros up to 10 digits: the same number;
                    # beyond 10 characters: #NUM!, zeros or not
                    for total in (5, 10, 11, 12, 15):
                        for digits in (good, '7' if src != 'BIN' else '1',
                                       '0'):
                            R.library(f'{src}2{dst}', digits.rjust(total, '0'),
                                      OMIT, f'text-zero-padded-{total}')
                        R.formula(f'{src}2{dst}', good.rjust(total, '0'),
                                  OMIT, f'text-zero-padded-{total}')
                    R.library(f'{src}2{dst}', s11, OMIT, 'text-11-digits')
                    # a line break or tab is no digit, wherever it stands
                    for s_ws in (good + '\n', '\n' + good, good + '\r\n',
                                 good + '\t', good[:2] + '\n' + good[2:],
                                 good.rjust(10, '0') + '\n'):
                        R.library(f'{src}2{dst}', s_ws, OMIT,
                                  'text-control-character')
                    R.library(f'{src}2{dst}', '1.5', OMIT, 'text-fraction')
                    R.library(f'{src}2{dst}', 1.5, OMIT, 'float-fraction')
                    for nearly in (101.0000000001, 10.99999999999, 1e-10,
                                   7.000000001, 1 + 2 ** -40):
                        R.library(f'{src}2{dst}', nearly, OMIT,
                                  'float-nearly-whole')
                    R.formula(f'{src}2{dst}', 101.0000000001, OMIT,
                              'float-nearly-whole')
                    R.formula(f'{src}2{dst}', 1.5, OMIT, 'float-fraction')
        # booleans -> #VALUE!
        for fn in FUNCS:
            for bval in (True, False):
                R.library(fn, bval, OMIT, 'boolean')
                R.formula(fn, bval, OMIT, 'boolean')
                if not fn.endswith('2DEC'):
                    arg = 5 if fn.startswith('DEC') else '101'
                    R.library(fn, arg, bval, 'boolean-places')
                    R.formula(fn, arg, bval, 'boolean-places')
    R.flush()
